//! vh-pg: runtime monitors for deadpool-postgres (C16, C18).

mod c16;
mod c18;
mod server;

use vh_common::{Args, Coverage, Finding, Json, Report, Violation};

pub struct Case {
    pub violations: Vec<Violation>,
    pub hash: u64,
    pub nontrivial: bool,
    pub events: u64,
    pub counters: std::collections::BTreeMap<String, u64>,
    pub desc: Json,
}

fn main() {
    vh_common::install_panic_hook();
    let args = Args::parse();
    vh_common::install_hang_watchdog(&args.prop);
    if args.prop == "replay" {
        let path = args.replay.clone().expect("replay file");
        let j = vh_common::parse_json(&std::fs::read_to_string(&path).expect("read")).expect("json");
        let engine = j.get("engine").and_then(Json::as_str).unwrap_or("").to_string();
        let seed = j.get("seed").and_then(Json::as_i64).unwrap_or(1) as u64;
        let idx = j.get("index").and_then(Json::as_i64).unwrap_or(0) as u64;
        match engine.as_str() {
            "c16" => {
                let c = c16::history(seed, idx);
                println!("{}", c.desc.render());
                if let Some(v) = c.violations.first() {
                    println!("REPLAY: reproduced {} {} :: {}", v.prop, v.oracle, v.msg);
                    std::process::exit(1);
                }
                println!("REPLAY: no violation reproduced");
            }
            "c16_cache_race" => {
                // thread timing is not controlled: try a few times
                for _ in 0..20 {
                    let c = c16::cache_race(seed, idx);
                    if let Some(v) = c.violations.first() {
                        println!("{}", c.desc.render());
                        println!("REPLAY: reproduced {} {} :: {}", v.prop, v.oracle, v.msg);
                        std::process::exit(1);
                    }
                }
                println!("REPLAY: no violation reproduced in 20 runs");
            }
            _ => {
                println!("{}", j.render());
                println!("REPLAY: C18 cases are self-describing (config printed above); re-run ./vcheck run C18 quick with the same VERIF_SEED");
            }
        }
        return;
    }
    let sc = |q: f64, t: f64| (args.tier.pick(q, t) * args.scale) as u64;
    let seed = args.seed;
    match args.prop.as_str() {
        "C16" => {
            let mut rep = Report::new(
                &args,
                "exploration",
                "cases = seeded random histories of gets / returns / takes / prepares / registry calls / resizes against a scripted PostgreSQL wire server (one task per connection over an in-memory duplex stream) with server-side errors and disconnects; distinct = hash of the operation log; non-trivial = a reuse happened after a server fault, keys differing only in parameter types were cached, or a registry call was made",
            );
            let n = sc(3000.0, 80_000.0);
            let jobs = args.jobs.max(1);
            let outs = vh_common::parallel(jobs, move |wk| {
                let mut cov = Coverage::default();
                let mut finds = Vec::new();
                let mut i = wk as u64;
                while i < n {
                    let _case = vh_common::CaseGuard::new(format!("c16 case {}", i));
                    let mut c = c16::history(seed, i);
                    // verdicts that rest on a generous wall-clock watchdog are only believed if they repeat
                    if c.violations.first().map(|v| ["get_hang", "harness", "capacity", "unusable_connection_issued"].contains(&v.oracle)).unwrap_or(false) {
                        let again = c16::history(seed, i);
                        if again.violations.first().map(|v| v.oracle) != c.violations.first().map(|v| v.oracle) {
                            cov.inconclusive.push(format!("watchdog verdict {} of case {} did not repeat", c.violations[0].oracle, i));
                            c = again;
                        }
                    }
                    cov.evaluations += 1;
                    cov.events += c.events;
                    let _ = cov.distinct.insert(c.hash);
                    if c.nontrivial {
                        let _ = cov.nontrivial.insert(c.hash);
                    }
                    let _ = cov.schedules.insert(c.hash);
                    for (k, v) in &c.counters {
                        cov.add(k, *v);
                    }
                    if !c.violations.is_empty() {
                        cov.bump("violating_cases");
                    }
                    if let Some(v) = c.violations.first() {
                        if finds.len() < 4 {
                            finds.push(Finding { v: v.clone(), sig: format!("C16/c16/{}", v.oracle), replay: c.desc.clone() });
                        }
                    } else if cov.samples.is_empty() && c.nontrivial {
                        cov.sample(c.desc);
                    }
                    i += jobs as u64;
                }
                (cov, finds)
            });
            for (cov, finds) in outs {
                rep.engine("c16").merge(cov);
                rep.add_findings(finds);
            }
            // clear() from a second OS thread against prepares (a few at a time: each case spins a thread)
            let n_race = sc(60.0, 2000.0).max(1);
            let jobs = (args.jobs / 4).max(1);
            let outs = vh_common::parallel(jobs, move |wk| {
                let mut cov = Coverage::default();
                let mut finds = Vec::new();
                let mut i = wk as u64;
                while i < n_race {
                    let _case = vh_common::CaseGuard::new(format!("c16_cache_race case {}", i));
                    let c = c16::cache_race(seed, i);
                    cov.evaluations += 1;
                    cov.events += c.events;
                    let _ = cov.distinct.insert(c.hash ^ i);
                    let _ = cov.nontrivial.insert(c.hash ^ i);
                    let _ = cov.schedules.insert(c.hash ^ i);
                    for (k, v) in &c.counters {
                        cov.add(k, *v);
                    }
                    if !c.violations.is_empty() {
                        cov.bump("violating_cases");
                    }
                    if let Some(v) = c.violations.first() {
                        if finds.len() < 4 {
                            finds.push(Finding { v: v.clone(), sig: format!("C16/c16_cache_race/{}", v.oracle), replay: c.desc.clone() });
                        }
                    } else if cov.samples.is_empty() {
                        cov.sample(c.desc);
                    }
                    i += jobs as u64;
                }
                (cov, finds)
            });
            for (cov, finds) in outs {
                rep.engine("c16_cache_race").merge(cov);
                rep.add_findings(finds);
            }
            // registry-wide clear() on a second thread against take()
            let n_reg = sc(40.0, 1200.0).max(1);
            let outs = vh_common::parallel(jobs, move |wk| {
                let mut cov = Coverage::default();
                let mut finds = Vec::new();
                let mut i = wk as u64;
                while i < n_reg {
                    let _case = vh_common::CaseGuard::new(format!("c16_registry_race case {}", i));
                    let c = c16::registry_race(seed, i);
                    cov.evaluations += 1;
                    cov.events += c.events;
                    let _ = cov.distinct.insert(c.hash);
                    let _ = cov.nontrivial.insert(c.hash);
                    let _ = cov.schedules.insert(c.hash);
                    for (k, v) in &c.counters {
                        cov.add(k, *v);
                    }
                    if !c.violations.is_empty() {
                        cov.bump("violating_cases");
                    }
                    if let Some(v) = c.violations.first() {
                        if finds.len() < 4 {
                            finds.push(Finding { v: v.clone(), sig: format!("C16/c16_registry_race/{}", v.oracle), replay: c.desc.clone() });
                        }
                    } else if cov.samples.is_empty() {
                        cov.sample(c.desc);
                    }
                    i += jobs as u64;
                }
                (cov, finds)
            });
            for (cov, finds) in outs {
                rep.engine("c16_registry_race").merge(cov);
                rep.add_findings(finds);
            }
            std::process::exit(rep.finish(&args));
        }
        "C18" => {
            let mut rep = Report::new(
                &args,
                "exploration",
                "cases = generated Config values (every field independently set/unset, URLs in URL and key/value syntax, valid and invalid, textual fields from a catalogue with empty / non-ASCII / quotes / '=' / spaces, every enum variant, USER set and unset) compared with an independent reference translation through the getters of tokio_postgres::Config; plus pool/manager sections observed on pools built by create_pool() against a scripted server on a loopback port; distinct = hash of the Config; non-trivial = a url is set or the outcome is an error",
            );
            let t = c18::run_translation(seed, sc(60_000.0, 2_000_000.0));
            let cov = rep.engine("c18_translation");
            cov.evaluations = t.evaluations;
            cov.events = t.evaluations;
            cov.distinct = t.distinct;
            cov.nontrivial = t.nontrivial;
            cov.counters = t.counters;
            cov.samples = t.samples;
            let mut fs = Vec::new();
            for (v, j) in t.violations {
                fs.push(Finding { sig: format!("C18/c18_translation/{}", v.oracle), v, replay: j });
            }
            rep.add_findings(fs);
            let s = c18::run_sections(seed, sc(240.0, 3000.0));
            let cov = rep.engine("c18_sections");
            cov.evaluations = s.cases;
            cov.events = s.cases;
            for h in &s.hashes {
                let _ = cov.distinct.insert(*h);
                let _ = cov.nontrivial.insert(*h);
            }
            cov.sample(Json::from(s.log.first().cloned().unwrap_or_default()));
            let _ = cov.counters.insert("zero_timeout_pools_built_without_runtime".into(), s.zero_timeout_pools_built);
            let _ = cov.counters.insert("configs_without_runtime".into(), s.log.iter().filter(|l| l.contains("runtime=false")).count() as u64);
            let _ = cov.counters.insert("violating_cases".into(), s.violations.len() as u64);
            let mut fs = Vec::new();
            for (v, j) in s.violations {
                fs.push(Finding { sig: format!("C18/c18_sections/{}", v.oracle), v, replay: j });
            }
            rep.add_findings(fs);
            std::process::exit(rep.finish(&args));
        }
        p => {
            println!("BROKEN vh-pg does not serve {}", p);
            std::process::exit(3);
        }
    }
}
