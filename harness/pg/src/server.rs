//! Scripted PostgreSQL v3 server, one task per connection, on the far end of
//! a `tokio::io::duplex` stream. It logs every frontend message and answers
//! according to a per-connection script.

use std::collections::HashMap;
use std::sync::atomic::{AtomicBool, AtomicU64, Ordering};
use std::sync::{Arc, Mutex};

use tokio::io::{AsyncRead, AsyncReadExt, AsyncWrite, AsyncWriteExt};

#[derive(Clone, Debug, PartialEq, Eq)]
pub enum Front {
    Query(String),
    Parse { name: String, sql: String, types: Vec<u32> },
    Describe(String),
    Bind { stmt: String },
    Execute,
    Sync,
    Close(String),
    Terminate,
    Other(u8),
}

/// What to do with the next simple query that is not a harness marker.
#[derive(Clone, Copy, Debug, PartialEq, Eq)]
pub enum QueryFault {
    Error,
    Disconnect,
}

#[derive(Default)]
pub struct ConnState {
    pub log: Vec<(u64, Front)>,
    pub parsed: HashMap<String, (String, Vec<u32>)>,
    pub fault_next_query: Option<QueryFault>,
    pub kill: bool,
    pub ended: bool,
}

#[derive(Default)]
pub struct ServerState {
    pub seq: AtomicU64,
    pub conns: Mutex<Vec<Arc<Mutex<ConnState>>>>,
    pub refuse_connect: AtomicBool,
}

impl ServerState {
    pub fn new_conn(&self) -> (usize, Arc<Mutex<ConnState>>) {
        let mut c = self.conns.lock().unwrap();
        let st = Arc::new(Mutex::new(ConnState::default()));
        c.push(st.clone());
        (c.len() - 1, st)
    }
    pub fn conn(&self, k: usize) -> Arc<Mutex<ConnState>> {
        self.conns.lock().unwrap()[k].clone()
    }
    pub fn n_conns(&self) -> usize {
        self.conns.lock().unwrap().len()
    }
}

pub const MARKER: &str = "SELECT 'vh-id'";

fn msg(tag: u8, body: &[u8]) -> Vec<u8> {
    let mut v = vec![tag];
    v.extend_from_slice(&((body.len() + 4) as i32).to_be_bytes());
    v.extend_from_slice(body);
    v
}
fn cstr(b: &[u8], pos: &mut usize) -> String {
    let st = *pos;
    while *pos < b.len() && b[*pos] != 0 {
        *pos += 1;
    }
    let s = String::from_utf8_lossy(&b[st..*pos]).into_owned();
    *pos += 1;
    s
}
fn ready() -> Vec<u8> {
    msg(b'Z', b"I")
}
/// SQLSTATE codes a client may be tempted to treat specially; the scripted failures rotate through them.
const SQLSTATES: &[&str] = &["XX000", "57P01", "57P03", "57014", "40001", "40P01", "25P02", "08006", "53300", "42601", "0A000", "HV000", "00000"];
static NEXT_STATE: AtomicU64 = AtomicU64::new(0);

fn error_response(text: &str) -> Vec<u8> {
    let code = SQLSTATES[NEXT_STATE.fetch_add(1, Ordering::Relaxed) as usize % SQLSTATES.len()];
    let severity: &[u8] = if code == "57P01" { b"FATAL\0" } else { b"ERROR\0" };
    let mut b = Vec::new();
    b.push(b'S');
    b.extend_from_slice(severity);
    b.push(b'C');
    b.extend_from_slice(code.as_bytes());
    b.push(0);
    b.push(b'M');
    b.extend_from_slice(text.as_bytes());
    b.push(0);
    b.push(0);
    msg(b'E', &b)
}
fn complete(tag: &str) -> Vec<u8> {
    let mut b = tag.as_bytes().to_vec();
    b.push(0);
    msg(b'C', &b)
}

pub async fn serve<S: AsyncRead + AsyncWrite + Unpin>(mut s: S, k: usize, st: Arc<Mutex<ConnState>>, server: Arc<ServerState>) {
    // ---- startup
    let mut lenb = [0u8; 4];
    if s.read_exact(&mut lenb).await.is_err() {
        st.lock().unwrap().ended = true;
        return;
    }
    let len = i32::from_be_bytes(lenb) as usize;
    let mut body = vec![0u8; len.saturating_sub(4)];
    if s.read_exact(&mut body).await.is_err() {
        st.lock().unwrap().ended = true;
        return;
    }
    let mut out = Vec::new();
    out.extend(msg(b'R', &0i32.to_be_bytes()));
    out.extend(msg(b'S', b"client_encoding\0UTF8\0"));
    out.extend(msg(b'S', b"server_version\014.0\0"));
    let mut kd = Vec::new();
    kd.extend_from_slice(&(k as i32 + 1000).to_be_bytes());
    kd.extend_from_slice(&7i32.to_be_bytes());
    out.extend(msg(b'K', &kd));
    out.extend(ready());
    if s.write_all(&out).await.is_err() {
        st.lock().unwrap().ended = true;
        return;
    }
    // ---- message loop
    let mut skip_until_sync = false;
    loop {
        if st.lock().unwrap().kill {
            break;
        }
        let mut hdr = [0u8; 5];
        let r = tokio::select! {
            r = s.read_exact(&mut hdr) => r.map(|_| ()),
            _ = wait_kill(&st) => break,
        };
        if r.is_err() {
            break;
        }
        let len = i32::from_be_bytes([hdr[1], hdr[2], hdr[3], hdr[4]]) as usize;
        let mut body = vec![0u8; len.saturating_sub(4)];
        if s.read_exact(&mut body).await.is_err() {
            break;
        }
        let mut pos = 0;
        let seq = server.seq.fetch_add(1, Ordering::SeqCst);
        let mut out = Vec::new();
        let mut disconnect = false;
        let front = match hdr[0] {
            b'Q' => {
                let q = cstr(&body, &mut pos);
                if q == MARKER {
                    // harness identity probe: CommandComplete "SELECT <k>"
                    out.extend(complete(&format!("SELECT {}", k)));
                    out.extend(ready());
                } else {
                    let fault = st.lock().unwrap().fault_next_query.take();
                    match fault {
                        Some(QueryFault::Error) => {
                            out.extend(error_response("scripted failure"));
                            out.extend(ready());
                        }
                        Some(QueryFault::Disconnect) => disconnect = true,
                        None => {
                            if q.trim().is_empty() {
                                out.extend(msg(b'I', b""));
                            } else {
                                out.extend(complete("SET"));
                            }
                            out.extend(ready());
                        }
                    }
                }
                Front::Query(q)
            }
            b'P' => {
                let name = cstr(&body, &mut pos);
                let sql = cstr(&body, &mut pos);
                let n = i16::from_be_bytes([body[pos], body[pos + 1]]) as usize;
                pos += 2;
                let mut types = Vec::new();
                for _ in 0..n {
                    types.push(u32::from_be_bytes([body[pos], body[pos + 1], body[pos + 2], body[pos + 3]]));
                    pos += 4;
                }
                if sql.contains("syntax_error") {
                    out.extend(error_response("syntax error"));
                    skip_until_sync = true;
                } else {
                    let _ = st.lock().unwrap().parsed.insert(name.clone(), (sql.clone(), types.clone()));
                    out.extend(msg(b'1', b""));
                }
                Front::Parse { name, sql, types }
            }
            b'D' => {
                let _kind = body[0];
                pos = 1;
                let name = cstr(&body, &mut pos);
                if !skip_until_sync {
                    let rec = st.lock().unwrap().parsed.get(&name).cloned();
                    match rec {
                        Some((sql, types)) => {
                            // number of parameters: the highest $n in the text
                            let mut n = 0usize;
                            for i in 1..=9 {
                                if sql.contains(&format!("${}", i)) {
                                    n = i;
                                }
                            }
                            let mut b = Vec::new();
                            b.extend_from_slice(&(n as i16).to_be_bytes());
                            for i in 0..n {
                                let oid = types.get(i).copied().filter(|o| *o != 0).unwrap_or(25);
                                b.extend_from_slice(&oid.to_be_bytes());
                            }
                            out.extend(msg(b't', &b));
                            out.extend(msg(b'n', b""));
                        }
                        None => {
                            out.extend(error_response("prepared statement does not exist"));
                            skip_until_sync = true;
                        }
                    }
                }
                Front::Describe(name)
            }
            b'B' => {
                let _portal = cstr(&body, &mut pos);
                let stmt = cstr(&body, &mut pos);
                if !skip_until_sync {
                    if st.lock().unwrap().parsed.contains_key(&stmt) {
                        out.extend(msg(b'2', b""));
                    } else {
                        out.extend(error_response("prepared statement does not exist"));
                        skip_until_sync = true;
                    }
                }
                Front::Bind { stmt }
            }
            b'E' => {
                if !skip_until_sync {
                    out.extend(complete("SELECT 0"));
                }
                Front::Execute
            }
            b'S' => {
                skip_until_sync = false;
                out.extend(ready());
                Front::Sync
            }
            b'C' => {
                pos = 1;
                let name = cstr(&body, &mut pos);
                let _ = st.lock().unwrap().parsed.remove(&name);
                if !skip_until_sync {
                    out.extend(msg(b'3', b""));
                }
                Front::Close(name)
            }
            b'X' => {
                st.lock().unwrap().log.push((seq, Front::Terminate));
                break;
            }
            t => Front::Other(t),
        };
        st.lock().unwrap().log.push((seq, front));
        if disconnect {
            break;
        }
        if !out.is_empty() && s.write_all(&out).await.is_err() {
            break;
        }
    }
    st.lock().unwrap().ended = true;
    drop(s);
}

async fn wait_kill(st: &Arc<Mutex<ConnState>>) {
    loop {
        if st.lock().unwrap().kill {
            return;
        }
        tokio::time::sleep(std::time::Duration::from_micros(200)).await;
    }
}
