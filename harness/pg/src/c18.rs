//! C18: postgres Config translation — generated Config values against an
//! independent reference translation, plus pool / manager sections observed
//! on the built pool (scripted server on a loopback port).

use std::collections::BTreeMap;
use std::net::IpAddr;
use std::panic::{catch_unwind, AssertUnwindSafe};
use std::path::PathBuf;
use std::str::FromStr;
use std::sync::Arc;
use std::time::Duration;

use deadpool_postgres::{ChannelBinding, Config, ConfigError, LoadBalanceHosts, ManagerConfig, PoolConfig, RecyclingMethod, Runtime, SslMode, TargetSessionAttrs};
use tokio_postgres::config::Host;
use tokio_postgres::NoTls;
use vh_common::{Hasher, Json, Rng, Violation};

use crate::server::*;

const URLS: &[&str] = &[
    "postgres://",
    "postgres://u@h/db",
    "postgres://u:pw@h:5433/db?application_name=app&sslmode=disable",
    "postgresql://h1,h2:5434/db2?connect_timeout=3&keepalives=0",
    "postgres:///db?host=/tmp",
    "postgres://u@[::1]:5432/d",
    "postgres://%C3%BC:p%C3%A4@h/d%CE%B2",
    "postgres://u@h/db?target_session_attrs=read-write&channel_binding=require&load_balance_hosts=random",
    "postgres://u@h/db?options=-c%20x%3Dy&keepalives_idle=7",
    "postgres://u@h",
    "postgres://@h/db",
    "postgres://u@h/",
    "host=h user=u dbname=d",
    "host=h1,h2 port=1,2 dbname='my db' password='p w'",
    "user='' dbname=''",
    "dbname=''",
    "dbname=x hostaddr=127.0.0.1",
    "dbname=d target_session_attrs=read-write channel_binding=disable load_balance_hosts=random",
    "dbname=d keepalives_idle=7 connect_timeout=9 sslmode=require",
    "dbname=d options='-c x=y' application_name='my app'",
    "user=only",
    "",
    "not a url",
    "postgres://u@h:notaport/db",
    "host=",
    "=",
    "postgres://%zz@h/d",
    "dbname=d sslmode=bogus",
    "dbname=d port=99999",
    "dbname='unterminated",
    "postgres://u@h/db?connect_timeout=abc",
    "postgres://u@h/%20",
    "dbname=' '",
    "postgres://u@h/db?connect_timeout=30&load_balance_hosts=random&keepalives=0&sslmode=require",
    "dbname=d hostaddr=10.0.0.1,10.0.0.2 host=a,b port=1",
];

const TEXTS: &[&str] = &["", "plain", "n\u{f6}n-\u{e4}scii\u{1F600}", "with space", "quo'te", "a=b", "back\\slash", "/abs/path", "x", " ", "\t", "\u{a0}", " padded ", "0", "null", "%20", "secret\n", "\r\n", "\n", "a\nb", "\u{1b}[0m"];
const HOSTS: &[&str] = &["h", "example.org", "/var/run/sock", "10.0.0.1", "", "h\u{f6}st"];

fn opt<T>(rng: &mut Rng, f: impl FnOnce(&mut Rng) -> T) -> Option<T> {
    if rng.chance(1, 2) {
        Some(f(rng))
    } else {
        None
    }
}

pub fn gen_config(rng: &mut Rng) -> Config {
    // mostly short hostile texts; now and then a long one with a multi-byte character sitting across a
    // "natural" length limit (16, 32, 63/64 = NAMEDATALEN, 128, 255/256 bytes)
    let text = |rng: &mut Rng| {
        if rng.chance(1, 6) {
            let b = *rng.pick(&[16usize, 32, 63, 64, 128, 255, 256]);
            let o = rng.range(1, 3) as usize;
            let ch = *rng.pick(&['é', '€', '😀']);
            let mut t = "a".repeat(b - o.min(ch.len_utf8() - 1).max(1));
            t.push(ch);
            t.push_str(&"z".repeat(rng.usize_below(10)));
            t
        } else {
            rng.pick(TEXTS).to_string()
        }
    };
    let mut c = Config::new();
    c.url = if rng.chance(2, 3) { Some(rng.pick(URLS).to_string()) } else { None };
    c.user = opt(rng, text);
    c.password = opt(rng, text);
    c.dbname = if rng.chance(2, 3) { Some(text(rng)) } else { None };
    c.options = opt(rng, text);
    c.application_name = opt(rng, text);
    c.ssl_mode = opt(rng, |r| *r.pick(&[SslMode::Disable, SslMode::Prefer, SslMode::Require]));
    c.host = opt(rng, |r| r.pick(HOSTS).to_string());
    c.hosts = opt(rng, |r| (0..r.usize_below(3)).map(|_| r.pick(HOSTS).to_string()).collect());
    let ip = |r: &mut Rng| IpAddr::from_str(*r.pick(&["127.0.0.1", "::1", "10.1.2.3"][..])).unwrap();
    c.hostaddr = opt(rng, ip);
    c.hostaddrs = opt(rng, |r| (0..r.usize_below(3)).map(|_| ip(r)).collect());
    c.port = opt(rng, |r| *r.pick(&[0u16, 1, 5432, 65535]));
    c.ports = opt(rng, |r| (0..r.usize_below(3)).map(|_| *r.pick(&[0u16, 1, 5432, 65535])).collect());
    let dur = |r: &mut Rng| Duration::new(*r.pick(&[0u64, 0, 1, 30, u32::MAX as u64]), *r.pick(&[0u32, 1, 1_000_000, 500_000_000, 999_999_999]));
    c.connect_timeout = opt(rng, dur);
    c.keepalives = opt(rng, |r| r.chance(1, 2));
    c.keepalives_idle = opt(rng, dur);
    c.target_session_attrs = opt(rng, |r| *r.pick(&[TargetSessionAttrs::Any, TargetSessionAttrs::ReadWrite]));
    c.channel_binding = opt(rng, |r| *r.pick(&[ChannelBinding::Disable, ChannelBinding::Prefer, ChannelBinding::Require]));
    c.load_balance_hosts = opt(rng, |r| *r.pick(&[LoadBalanceHosts::Disable, LoadBalanceHosts::Random]));
    c
}

fn host_of(s: &str) -> Host {
    if s.starts_with('/') {
        Host::Unix(PathBuf::from(s))
    } else {
        Host::Tcp(s.to_string())
    }
}

/// Compares get_pg_config() with the reference translation. Returns a violation text, the outcome class.
pub fn check_translation(c: &Config, env_user: Option<&str>) -> (Option<(&'static str, String)>, &'static str) {
    let res = catch_unwind(AssertUnwindSafe(|| c.get_pg_config()));
    let res = match res {
        Ok(r) => r,
        Err(p) => return (Some(("get_pg_config_panicked", format!("get_pg_config() panicked ({}) for {:?}", vh_common::panic_message(&*p), c))), "panic"),
    };
    // ---- reference
    let base = match &c.url {
        Some(u) => match tokio_postgres::Config::from_str(u) {
            Ok(b) => b,
            Err(_) => {
                return match res {
                    Err(ConfigError::InvalidUrl(_)) => (None, "invalid_url"),
                    other => (Some(("invalid_url_not_reported", format!("url {:?} is invalid but get_pg_config() returned {:?}", u, other.map(|_| "Ok")))), "invalid_url"),
                }
            }
        },
        None => tokio_postgres::Config::new(),
    };
    let dbname: Option<String> = match c.dbname.as_ref().filter(|s| !s.is_empty()) {
        Some(d) => Some(d.clone()),
        None => base.get_dbname().map(|s| s.to_string()),
    };
    match &dbname {
        None => {
            return match res {
                Err(ConfigError::DbnameMissing) => (None, "dbname_missing"),
                other => (Some(("dbname_missing_not_reported", format!("no dbname anywhere but get_pg_config() returned {:?} for {:?}", other.map(|_| "Ok"), c))), "dbname_missing"),
            }
        }
        Some(d) if d.is_empty() => {
            return match res {
                Err(ConfigError::DbnameEmpty) => (None, "dbname_empty"),
                other => (Some(("dbname_empty_not_reported", format!("empty dbname but get_pg_config() returned {:?} for {:?}", other.map(|_| "Ok"), c))), "dbname_empty"),
            }
        }
        _ => {}
    }
    let got = match res {
        Ok(g) => g,
        Err(e) => return (Some(("unexpected_error", format!("get_pg_config() failed with {:?} for a valid {:?}", e, c))), "ok"),
    };
    let mut diffs: Vec<String> = Vec::new();
    // user
    let mut user: Option<String> = match c.user.as_ref().filter(|s| !s.is_empty()) {
        Some(u) => Some(u.clone()),
        None => base.get_user().map(|s| s.to_string()),
    };
    if user.as_deref().map(|u| u.is_empty()).unwrap_or(true) {
        if let Some(eu) = env_user {
            user = Some(eu.to_string());
        }
    }
    if got.get_user().map(|s| s.to_string()) != user {
        diffs.push(format!("user: got {:?}, expected {:?}", got.get_user(), user));
    }
    let password: Option<Vec<u8>> = match &c.password {
        Some(p) => Some(p.as_bytes().to_vec()),
        None => base.get_password().map(|p| p.to_vec()),
    };
    if got.get_password().map(|p| p.to_vec()) != password {
        diffs.push(format!("password: got {:?}, expected {:?}", got.get_password(), password));
    }
    if got.get_dbname().map(|s| s.to_string()) != dbname {
        diffs.push(format!("dbname: got {:?}, expected {:?}", got.get_dbname(), dbname));
    }
    let options = c.options.clone().or(base.get_options().map(|s| s.to_string()));
    if got.get_options().map(|s| s.to_string()) != options {
        diffs.push(format!("options: got {:?}, expected {:?}", got.get_options(), options));
    }
    let app = c.application_name.clone().or(base.get_application_name().map(|s| s.to_string()));
    if got.get_application_name().map(|s| s.to_string()) != app {
        diffs.push(format!("application_name: got {:?}, expected {:?}", got.get_application_name(), app));
    }
    let mut hosts: Vec<Host> = base.get_hosts().to_vec();
    if let Some(h) = &c.host {
        hosts.push(host_of(h));
    }
    if let Some(hs) = &c.hosts {
        hosts.extend(hs.iter().map(|h| host_of(h)));
    }
    if hosts.is_empty() {
        if cfg!(unix) {
            hosts = vec![Host::Unix("/run/postgresql".into()), Host::Unix("/var/run/postgresql".into()), Host::Unix("/tmp".into())];
        } else {
            hosts = vec![Host::Tcp("127.0.0.1".into())];
        }
    }
    if got.get_hosts() != hosts.as_slice() {
        diffs.push(format!("hosts: got {:?}, expected {:?}", got.get_hosts(), hosts));
    }
    let mut addrs: Vec<IpAddr> = base.get_hostaddrs().to_vec();
    addrs.extend(c.hostaddr);
    addrs.extend(c.hostaddrs.clone().unwrap_or_default());
    if got.get_hostaddrs() != addrs.as_slice() {
        diffs.push(format!("hostaddrs: got {:?}, expected {:?}", got.get_hostaddrs(), addrs));
    }
    let mut ports: Vec<u16> = base.get_ports().to_vec();
    ports.extend(c.port);
    ports.extend(c.ports.clone().unwrap_or_default());
    if got.get_ports() != ports.as_slice() {
        diffs.push(format!("ports: got {:?}, expected {:?}", got.get_ports(), ports));
    }
    let ct = c.connect_timeout.or(base.get_connect_timeout().copied());
    if got.get_connect_timeout().copied() != ct {
        diffs.push(format!("connect_timeout: got {:?}, expected {:?}", got.get_connect_timeout(), ct));
    }
    let ka = c.keepalives.unwrap_or(base.get_keepalives());
    if got.get_keepalives() != ka {
        diffs.push(format!("keepalives: got {:?}, expected {:?}", got.get_keepalives(), ka));
    }
    let ki = c.keepalives_idle.unwrap_or(base.get_keepalives_idle());
    if got.get_keepalives_idle() != ki {
        diffs.push(format!("keepalives_idle: got {:?}, expected {:?}", got.get_keepalives_idle(), ki));
    }
    let ssl = c.ssl_mode.map(Into::into).unwrap_or(base.get_ssl_mode());
    if got.get_ssl_mode() != ssl {
        diffs.push(format!("ssl_mode: got {:?}, expected {:?}", got.get_ssl_mode(), ssl));
    }
    let tsa = c.target_session_attrs.map(Into::into).unwrap_or(base.get_target_session_attrs());
    if got.get_target_session_attrs() != tsa {
        diffs.push(format!("target_session_attrs: got {:?}, expected {:?}", got.get_target_session_attrs(), tsa));
    }
    let cb = c.channel_binding.map(Into::into).unwrap_or(base.get_channel_binding());
    if got.get_channel_binding() != cb {
        diffs.push(format!("channel_binding: got {:?}, expected {:?}", got.get_channel_binding(), cb));
    }
    let lb = c.load_balance_hosts.map(Into::into).unwrap_or(base.get_load_balance_hosts());
    if got.get_load_balance_hosts() != lb {
        diffs.push(format!("load_balance_hosts: got {:?}, expected {:?}", got.get_load_balance_hosts(), lb));
    }
    if diffs.is_empty() {
        (None, "ok")
    } else {
        (Some(("option_not_in_effect", format!("{} for {:?}", diffs.join("; "), c))), "ok")
    }
}

pub struct TransOut {
    pub evaluations: u64,
    pub distinct: std::collections::HashSet<u64>,
    pub nontrivial: std::collections::HashSet<u64>,
    pub counters: BTreeMap<String, u64>,
    pub violations: Vec<(Violation, Json)>,
    pub samples: Vec<Json>,
}

pub fn run_translation(seed: u64, n: u64) -> TransOut {
    let mut out = TransOut { evaluations: 0, distinct: Default::default(), nontrivial: Default::default(), counters: BTreeMap::new(), violations: Vec::new(), samples: Vec::new() };
    for phase in 0..2 {
        let env_user = if phase == 0 {
            std::env::set_var("USER", "envuser");
            Some("envuser")
        } else {
            std::env::remove_var("USER");
            None
        };
        let mut rng = Rng::derive(seed, 0xC18, phase);
        for i in 0..n / 2 {
            let c = gen_config(&mut rng);
            let desc = format!("{:?}", c);
            let h = vh_common::fnv1a(desc.as_bytes()) ^ phase;
            out.evaluations += 1;
            let _ = out.distinct.insert(h);
            let (v, class) = check_translation(&c, env_user);
            *out.counters.entry(format!("class:{}:USER_{}", class, if env_user.is_some() { "set" } else { "unset" })).or_insert(0) += 1;
            if c.url.is_some() || class != "ok" {
                let _ = out.nontrivial.insert(h);
            }
            if out.samples.len() < 2 && class == "ok" && c.url.is_some() && i > 3 {
                out.samples.push(Json::obj().with("config", desc.clone()).with("class", class));
            }
            if let Some((oracle, msg)) = v {
                *out.counters.entry("violating_cases".to_string()).or_insert(0) += 1;
                if out.violations.len() < 6 {
                    out.violations.push((Violation { prop: "C18", oracle, msg }, Json::obj().with("engine", "c18_translation").with("seed", seed).with("phase", phase).with("index", i).with("config", desc)));
                }
            }
        }
    }
    std::env::set_var("USER", "envuser");
    out
}

// ------------------------------------------------------------------ pool / manager sections on the built pool

pub struct SectionOut {
    pub cases: u64,
    pub violations: Vec<(Violation, Json)>,
    pub log: Vec<String>,
    pub hashes: Vec<u64>,
    /// pools built without a runtime although (zero) timeouts were configured
    pub zero_timeout_pools_built: u64,
}

pub fn run_sections(seed: u64, n: u64) -> SectionOut {
    let rt = tokio::runtime::Builder::new_current_thread().enable_all().build().expect("rt");
    let mut out = SectionOut { cases: 0, violations: Vec::new(), log: Vec::new(), hashes: Vec::new(), zero_timeout_pools_built: 0 };
    rt.block_on(async {
        let mut rng = Rng::derive(seed, 0xC18, 77);
        for i in 0..n {
            // a scripted server on a loopback port
            // (a burst of other loopback traffic can exhaust the ephemeral ports for a minute: wait, do not fail)
            let mut listener = None;
            for _ in 0..600 {
                match tokio::net::TcpListener::bind("127.0.0.1:0").await {
                    Ok(l) => {
                        listener = Some(l);
                        break;
                    }
                    Err(_) => tokio::time::sleep(Duration::from_millis(200)).await,
                }
            }
            let listener = listener.expect("bind");
            let port = listener.local_addr().unwrap().port();
            let server = Arc::new(ServerState::default());
            let srv = server.clone();
            let acc = tokio::spawn(async move {
                loop {
                    let Ok((s, _)) = listener.accept().await else { break };
                    let (k, st) = srv.new_conn();
                    drop(tokio::spawn(serve(s, k, st, srv.clone())));
                }
            });
            let method = match rng.below(7) {
                0 => None,
                1 => Some(RecyclingMethod::Fast),
                2 => Some(RecyclingMethod::Verified),
                3 => Some(RecyclingMethod::Clean),
                4 => Some(RecyclingMethod::Custom(format!("SELECT 'c{}'", i))),
                // the custom statements that look like "nothing": still one round trip per recycle
                5 => Some(RecyclingMethod::Custom(String::new())),
                _ => Some(RecyclingMethod::Custom(" ".into())),
            };
            let max_size = rng.range(1, 5) as usize;
            let lifo = rng.chance(1, 2);
            let with_timeouts = rng.chance(1, 2);
            let with_runtime = rng.chance(2, 3);
            let with_pool = rng.chance(4, 5);
            let mut c = Config::new();
            c.host = Some("127.0.0.1".into());
            c.port = Some(port);
            c.user = Some("u".into());
            c.dbname = Some("d".into());
            c.manager = method.clone().map(|m| ManagerConfig { recycling_method: m });
            // without a runtime the pool must not be built, so anything goes (zero, 1 ns, ...); with one the
            // timeouts must not get in the way of the behavioural part below
            let timeouts = if !with_timeouts {
                deadpool_postgres::Timeouts { wait: None, create: None, recycle: None }
            } else if with_runtime {
                deadpool_postgres::Timeouts {
                    wait: *rng.pick(&[Some(Duration::from_secs(7)), Some(Duration::from_secs(7)), Some(Duration::ZERO), None]),
                    create: if rng.chance(1, 2) { Some(Duration::from_secs(8)) } else { None },
                    recycle: if rng.chance(1, 3) { Some(Duration::from_secs(9)) } else { None },
                }
            } else {
                // a third of the time only "none" and "zero": the combinations for which a runtime-free pool could work
                let all = [None, Some(Duration::ZERO), Some(Duration::from_nanos(1)), Some(Duration::from_secs(7))];
                let zeros = [None, Some(Duration::ZERO), Some(Duration::ZERO), Some(Duration::ZERO)];
                let vals = if rng.chance(1, 3) { zeros } else { all };
                let mut t = deadpool_postgres::Timeouts { wait: *rng.pick(&vals), create: *rng.pick(&vals), recycle: *rng.pick(&vals) };
                if t.wait.is_none() && t.create.is_none() && t.recycle.is_none() {
                    t.wait = Some(Duration::from_secs(7));
                }
                t
            };
            let any_timeout = timeouts.wait.is_some() || timeouts.create.is_some() || timeouts.recycle.is_some();
            let any_nonzero = [timeouts.wait, timeouts.create, timeouts.recycle].iter().any(|t| t.map(|d| !d.is_zero()).unwrap_or(false));
            let mut pc = PoolConfig::new(max_size);
            pc.timeouts = timeouts;
            pc.queue_mode = if lifo { deadpool::managed::QueueMode::Lifo } else { deadpool::managed::QueueMode::Fifo };
            c.pool = if with_pool { Some(pc) } else { None };
            let desc = format!("method={:?} max_size={} lifo={} timeouts={:?} runtime={} pool_section={}", method, max_size, lifo, timeouts, with_runtime, with_pool);
            out.cases += 1;
            out.hashes.push(vh_common::fnv1a(desc.as_bytes()));
            out.log.push(desc.clone());
            let mut bad = |oracle: &'static str, msg: String| {
                out.violations.push((Violation { prop: "C18", oracle, msg: format!("{} ({})", msg, desc) }, Json::obj().with("engine", "c18_sections").with("seed", seed).with("index", i).with("config", desc.clone())));
            };
            let r = catch_unwind(AssertUnwindSafe(|| c.create_pool(if with_runtime { Some(Runtime::Tokio1) } else { None }, NoTls)));
            let pool = match r {
                Err(_) => {
                    bad("create_pool_panicked", "create_pool() panicked".into());
                    acc.abort();
                    continue;
                }
                Ok(Err(e)) => {
                    let timeouts_set = with_pool && any_timeout;
                    if !(timeouts_set && !with_runtime && matches!(e, deadpool_postgres::CreatePoolError::Build(_))) {
                        bad("create_pool_failed", format!("create_pool() failed with {:?}", e));
                    }
                    acc.abort();
                    continue;
                }
                Ok(Ok(p)) => p,
            };
            if with_pool && !with_runtime && any_nonzero {
                bad("timeouts_without_runtime_accepted", "create_pool() accepted timeouts without a runtime".into());
            } else if with_pool && !with_runtime && any_timeout {
                // only zero timeouts: whether build() insists on a runtime for them is its business, but the
                // complaint must not be put off until the pool is used
                out.zero_timeout_pools_built += 1;
                let r = tokio::time::timeout(Duration::from_secs(10), pool.get()).await;
                if let Ok(Err(deadpool_postgres::PoolError::NoRuntimeSpecified)) = r {
                    bad("no_runtime_reported_at_first_use", "create_pool() accepted the configuration without a runtime and the first get() then failed with NoRuntimeSpecified".into());
                }
                acc.abort();
                continue;
            }
            let st = pool.status();
            let want_max = if with_pool { max_size } else { PoolConfig::default().max_size };
            if st.max_size != want_max {
                bad("max_size_not_passed", format!("built pool has max_size {} instead of {}", st.max_size, want_max));
            }
            let t = pool.timeouts();
            let want_t = if with_pool { timeouts } else { deadpool_postgres::Timeouts::default() };
            if t.wait != want_t.wait || t.create != want_t.create || t.recycle != want_t.recycle {
                bad("timeouts_not_passed", format!("built pool has timeouts {:?} instead of {:?}", t, want_t));
            }
            // behaviour: recycling method and queue mode as observed by the server
            if with_pool && max_size >= 2 || !with_pool {
                let get = |p: deadpool_postgres::Pool| async move { tokio::time::timeout(Duration::from_secs(10), p.get()).await };
                let (a, b) = match (get(pool.clone()).await, get(pool.clone()).await) {
                    (Ok(Ok(a)), Ok(Ok(b))) => (a, b),
                    (x, y) => {
                        bad("harness", format!("could not obtain two clients: {:?} {:?}", x.map(|r| r.map(|_| ())), y.map(|r| r.map(|_| ()))));
                        acc.abort();
                        continue;
                    }
                };
                let ka = ident(&a).await;
                let kb = ident(&b).await;
                drop(a);
                drop(b);
                let mark = server.seq.load(std::sync::atomic::Ordering::SeqCst);
                match get(pool.clone()).await {
                    Ok(Ok(c3)) => {
                        let k3 = ident(&c3).await;
                        let want_k = if with_pool && lifo { kb.clone() } else { ka.clone() };
                        if k3 != want_k {
                            bad("queue_mode_not_passed", format!("after returning conns {:?},{:?} the pool handed out {:?} (lifo={})", ka, kb, k3, with_pool && lifo));
                        }
                        if let Ok(k) = k3 {
                            let qs: Vec<String> = server
                                .conn(k)
                                .lock()
                                .unwrap()
                                .log
                                .iter()
                                .filter(|(s, _)| *s >= mark)
                                .filter_map(|(_, f)| match f {
                                    Front::Query(q) if q != MARKER => Some(q.clone()),
                                    _ => None,
                                })
                                .collect();
                            let want: Vec<String> = match method.clone().unwrap_or_default() {
                                RecyclingMethod::Fast => vec![],
                                RecyclingMethod::Verified => vec![String::new()],
                                RecyclingMethod::Clean => vec!["CLOSE ALL; SET SESSION AUTHORIZATION DEFAULT; RESET ALL; UNLISTEN *; SELECT pg_advisory_unlock_all(); DISCARD TEMP; DISCARD SEQUENCES;".to_string()],
                                RecyclingMethod::Custom(s) => vec![s],
                            };
                            if qs != want {
                                bad("recycling_method_not_passed", format!("recycle check seen by the server {:?}, configured method implies {:?}", qs, want));
                            }
                        }
                    }
                    other => bad("harness", format!("third get failed: {:?}", other.map(|r| r.map(|_| ())))),
                }
            }
            drop(pool);
            acc.abort();
        }
    });
    out
}

async fn ident(c: &tokio_postgres::Client) -> Result<usize, String> {
    match tokio::time::timeout(Duration::from_secs(10), c.simple_query(MARKER)).await {
        Err(_) => Err("timeout".into()),
        Ok(Err(e)) => Err(format!("{}", e)),
        Ok(Ok(msgs)) => {
            for m in msgs {
                if let tokio_postgres::SimpleQueryMessage::CommandComplete(n) = m {
                    return Ok(n as usize);
                }
            }
            Err("no CommandComplete".into())
        }
    }
}

#[allow(dead_code)]
pub fn unused(_: Hasher) {}
