//! C16: postgres pool — health checks, statement cache, cache registry.

use std::collections::{BTreeMap, HashMap, HashSet};
use std::sync::atomic::{AtomicBool, Ordering};
use std::sync::{Arc, Mutex};
use std::time::Duration;

use deadpool_postgres::{Connect, Manager, ManagerConfig, Pool, RecyclingMethod};
use tokio_postgres::types::{ToSql, Type};
use tokio_postgres::{NoTls, SimpleQueryMessage};
use vh_common::{Hasher, Json, Rng, Violation};

use crate::server::*;
use crate::Case;

struct VConnect {
    server: Arc<ServerState>,
    finished: Arc<Mutex<HashMap<usize, Arc<AtomicBool>>>>,
    /// the task handed to the pool goes on living after the connection has ended (a supervisor that
    /// has more to do than drive the connection): legal for a custom `Connect`
    linger: bool,
}

impl Connect for VConnect {
    fn connect(
        &self,
        pg_config: &tokio_postgres::Config,
    ) -> std::pin::Pin<Box<dyn std::future::Future<Output = Result<(tokio_postgres::Client, tokio::task::JoinHandle<()>), tokio_postgres::Error>> + Send + '_>> {
        let server = self.server.clone();
        let pg = pg_config.clone();
        let fin = self.finished.clone();
        let linger = self.linger;
        Box::pin(async move {
            let (a, b) = tokio::io::duplex(1 << 16);
            let (k, st) = server.new_conn();
            drop(tokio::spawn(serve(b, k, st, server.clone())));
            let (client, connection) = pg.connect_raw(a, NoTls).await?;
            let flag = Arc::new(AtomicBool::new(false));
            let _ = fin.lock().unwrap().insert(k, flag.clone());
            let h = tokio::spawn(async move {
                let _ = connection.await;
                flag.store(true, Ordering::SeqCst);
                if linger {
                    std::future::pending::<()>().await;
                }
            });
            Ok((client, h))
        })
    }
}

/// Removes the socket directory when the history is over.
struct SockDir(std::path::PathBuf);
impl Drop for SockDir {
    fn drop(&mut self) {
        let _ = std::fs::remove_dir_all(&self.0);
    }
}

const CLEAN_SQL: &str = "CLOSE ALL; SET SESSION AUTHORIZATION DEFAULT; RESET ALL; UNLISTEN *; SELECT pg_advisory_unlock_all(); DISCARD TEMP; DISCARD SEQUENCES;";

type Key = (String, Vec<u32>);

fn catalogue() -> Vec<(String, Vec<Type>)> {
    vec![
        ("SELECT 1".into(), vec![]),
        ("SELECT 2".into(), vec![]),
        ("SELECT $1".into(), vec![]),
        ("SELECT $1".into(), vec![Type::INT4]),
        ("SELECT $1".into(), vec![Type::TEXT]),
        ("SELECT $1, $2".into(), vec![Type::INT4, Type::TEXT]),
        ("SELECT $1, $2".into(), vec![Type::TEXT, Type::INT4]),
        ("SELECT syntax_error".into(), vec![]),
        // keys are compared exactly: texts that differ only in case or white space are different statements
        ("SELECT 1 ".into(), vec![]),
        ("select 1".into(), vec![]),
        (" SELECT 1".into(), vec![]),
        ("SELECT  $1".into(), vec![Type::INT4]),
    ]
}

async fn ident(c: &tokio_postgres::Client) -> Result<usize, String> {
    match tokio::time::timeout(Duration::from_secs(10), c.simple_query(MARKER)).await {
        Err(_) => Err("timeout".into()),
        Ok(Err(e)) => Err(format!("{}", e)),
        Ok(Ok(msgs)) => {
            for m in msgs {
                if let SimpleQueryMessage::CommandComplete(n) = m {
                    return Ok(n as usize);
                }
            }
            Err("no CommandComplete".into())
        }
    }
}

pub fn history(seed: u64, idx: u64) -> Case {
    let mut rng = Rng::derive(seed, 0xC16, idx);
    let max_size = rng.range(1, 3) as usize;
    let method = match rng.below(5) {
        0 => RecyclingMethod::Fast,
        1 => RecyclingMethod::Verified,
        2 => RecyclingMethod::Clean,
        3 => RecyclingMethod::Custom("SELECT 'custom check'".into()),
        _ => RecyclingMethod::Custom("".into()),
    };
    let expected_check: Option<String> = match &method {
        RecyclingMethod::Fast => None,
        RecyclingMethod::Verified => Some(String::new()),
        RecyclingMethod::Clean => Some(CLEAN_SQL.to_string()),
        RecyclingMethod::Custom(s) => Some(s.clone()),
    };
    let n_ops = rng.range(5, 40) as usize;
    let linger = rng.chance(1, 3);
    let via_config = rng.chance(1, 5);
    let with_hook = rng.chance(1, 3);
    let config_desc = format!("max_size={} method={:?} connection_task_lingers={} pool_built_from_config={} post_create_hook={}", max_size, method, linger, via_config, with_hook);
    let rt = tokio::runtime::Builder::new_current_thread().enable_all().build().expect("rt");
    let mut viol: Vec<Violation> = Vec::new();
    let mut log: Vec<String> = Vec::new();
    let mut counters: BTreeMap<String, u64> = BTreeMap::new();
    let mut nontrivial = false;
    rt.block_on(async {
        let server = Arc::new(ServerState::default());
        let finished: Arc<Mutex<HashMap<usize, Arc<AtomicBool>>>> = Arc::new(Mutex::new(HashMap::new()));
        let mut pgc = tokio_postgres::Config::new();
        let _ = pgc.user("u").dbname("d");
        // one history in five reaches its pool the way a deployment does: a `Config` (host = directory of a unix
        // socket the scripted server listens on) with the recycling method in its manager section
        // one history in three has a post_create hook that, when told to, caches a statement on the new client,
        // keeps a handle on that client's cache and then rejects the client: the pool discards it, so the
        // registry must not address it any more
        let fail_next = Arc::new(AtomicBool::new(false));
        let discarded: Arc<Mutex<Vec<Arc<deadpool_postgres::StatementCache>>>> = Arc::new(Mutex::new(Vec::new()));
        let hook = {
            let (fail_next, discarded) = (fail_next.clone(), discarded.clone());
            deadpool_postgres::Hook::async_fn(move |client: &mut deadpool_postgres::ClientWrapper, _| {
                let (fail_next, discarded) = (fail_next.clone(), discarded.clone());
                Box::pin(async move {
                    if fail_next.swap(false, Ordering::SeqCst) {
                        let _ = client.prepare_cached("SELECT 'seen by the hook'").await;
                        discarded.lock().unwrap().push(client.statement_cache.clone());
                        return Err(deadpool_postgres::HookError::message("scripted rejection"));
                    }
                    Ok(())
                })
            })
        };
        let mut _sock: Option<SockDir> = None;
        let mut _acc: Option<tokio::task::JoinHandle<()>> = None;
        let pool: Pool = if via_config {
            static DIRS: std::sync::atomic::AtomicU64 = std::sync::atomic::AtomicU64::new(0);
            let dir = std::env::temp_dir().join(format!("vh-pg-{}-{}", std::process::id(), DIRS.fetch_add(1, Ordering::SeqCst)));
            let _ = std::fs::remove_dir_all(&dir);
            std::fs::create_dir_all(&dir).expect("socket dir");
            let listener = tokio::net::UnixListener::bind(dir.join(".s.PGSQL.5432")).expect("unix listener");
            let srv = server.clone();
            _acc = Some(tokio::spawn(async move {
                loop {
                    let Ok((s, _)) = listener.accept().await else { break };
                    let (k, st) = srv.new_conn();
                    drop(tokio::spawn(serve(s, k, st, srv.clone())));
                }
            }));
            let mut c = deadpool_postgres::Config::new();
            c.host = Some(dir.to_string_lossy().into_owned());
            c.port = Some(5432);
            c.user = Some("u".into());
            c.dbname = Some("d".into());
            c.manager = Some(ManagerConfig { recycling_method: method.clone() });
            c.pool = Some(deadpool_postgres::PoolConfig::new(max_size));
            _sock = Some(SockDir(dir));
            let b = c.builder(NoTls).expect("builder").runtime(deadpool_postgres::Runtime::Tokio1);
            if with_hook { b.post_create(hook) } else { b }.build().expect("build")
        } else {
            let mgr = Manager::from_connect(pgc, VConnect { server: server.clone(), finished: finished.clone(), linger }, ManagerConfig { recycling_method: method.clone() });
            let b = Pool::builder(mgr).max_size(max_size);
            if with_hook { b.post_create(hook) } else { b }.build().expect("build")
        };
        // every cache the hook kept a handle on still holds the one statement the hook put there
        let check_discarded = |viol: &mut Vec<Violation>, when: &str| {
            for (i, c) in discarded.lock().unwrap().iter().enumerate() {
                if c.size() != 1 {
                    viol.push(Violation { prop: "C16", oracle: "registry_reached_discarded_client", msg: format!("{}: the cache of client number {} that a post_create hook rejected (and the pool discarded) holds {} statements instead of the 1 it had: the registry still addresses it", when, i, c.size()) });
                }
            }
        };
        let mut held: Vec<(deadpool_postgres::Client, usize)> = Vec::new();
        let mut taken: Vec<(deadpool_postgres::ClientWrapper, usize)> = Vec::new();
        let mut keys: HashMap<usize, HashSet<Key>> = HashMap::new();
        let mut dead: HashSet<usize> = HashSet::new();
        let mut return_seq: HashMap<usize, u64> = HashMap::new();
        let mut idle: Vec<usize> = Vec::new();
        let cat = catalogue();
        macro_rules! v {
            ($oracle:expr, $($arg:tt)*) => {
                viol.push(Violation { prop: "C16", oracle: $oracle, msg: format!($($arg)*) })
            };
        }
        let is_finished = |k: usize| finished.lock().unwrap().get(&k).map(|f| f.load(Ordering::SeqCst)).unwrap_or(false);
        for step in 0..(n_ops + 1) {
            if !viol.is_empty() {
                break;
            }
            let last = step == n_ops;
            let x = if last { 1000 } else { rng.below(100) };
            // ------------------------------------------------ get
            if (x < 30 && held.len() < max_size) || (!last && held.is_empty() && x < 90) {
                let fin_before: HashSet<usize> = (0..server.n_conns()).filter(|k| is_finished(*k)).collect();
                let armed = with_hook && idle.is_empty() && rng.chance(1, 3);
                if armed {
                    fail_next.store(true, Ordering::SeqCst);
                }
                let r = tokio::time::timeout(Duration::from_secs(10), pool.get()).await;
                let consumed = armed && !fail_next.swap(false, Ordering::SeqCst);
                match r {
                    Ok(Err(deadpool_postgres::PoolError::PostCreateHook(_))) if consumed => {
                        log.push("get -> the post_create hook rejected the new client".into());
                        *counters.entry("clients_rejected_by_hook".into()).or_insert(0) += 1;
                        nontrivial = true;
                    }
                    Err(_) => v!("get_hang", "get() with {} of {} clients out did not return within 10s", held.len(), max_size),
                    Ok(Err(e)) => v!("get_failed", "get() with {} of {} clients out failed: {:?}", held.len(), max_size, e),
                    Ok(Ok(c)) => match ident(&c).await {
                        Err(e) => {
                            if c.is_closed() {
                                v!("closed_client_issued", "get() handed out a client whose connection is closed ({})", e);
                            } else {
                                v!("harness", "cannot identify client: {}", e);
                            }
                        }
                        Ok(k) => {
                            log.push(format!("get -> conn {}", k));
                            *counters.entry("handouts".into()).or_insert(0) += 1;
                            if fin_before.contains(&k) || c.is_closed() {
                                v!("closed_client_issued", "get() handed out conn {} whose connection had already finished", k);
                            }
                            if dead.contains(&k) {
                                v!("failed_client_reissued", "conn {} was handed out again after its health check failed / it was disconnected", k);
                            }
                            // traffic between the return and this hand-out
                            let st = server.conn(k);
                            let since = return_seq.get(&k).copied();
                            let qs: Vec<String> = st
                                .lock()
                                .unwrap()
                                .log
                                .iter()
                                .filter(|(s, _)| since.map(|r| *s >= r).unwrap_or(true))
                                .filter_map(|(_, f)| match f {
                                    Front::Query(q) if q != MARKER => Some(q.clone()),
                                    _ => None,
                                })
                                .collect();
                            let want: Vec<String> = match (&since, &expected_check) {
                                (Some(_), Some(q)) => vec![q.clone()],
                                _ => vec![],
                            };
                            if qs != want {
                                v!("recycle_check_traffic", "conn {} ({}): server saw simple queries {:?} before this hand-out, documented check is {:?}", k, if since.is_some() { "reused" } else { "fresh" }, qs, want);
                            }
                            if since.is_some() {
                                *counters.entry("reuses".into()).or_insert(0) += 1;
                                if !dead.is_empty() {
                                    nontrivial = true;
                                }
                            }
                            idle.retain(|i| *i != k);
                            // size() == number of cached keys
                            let want_size = keys.get(&k).map(|s| s.len()).unwrap_or(0);
                            if c.statement_cache.size() != want_size {
                                v!("cache_size", "conn {}: statement_cache.size() = {} but {} keys were cached", k, c.statement_cache.size(), want_size);
                            }
                            held.push((c, k));
                        }
                    },
                }
                continue;
            }
            if last {
                pool.manager().statement_caches.clear();
                check_discarded(&mut viol, "after statement_caches.clear() at the end");
                let taken_ks: HashSet<usize> = taken.iter().map(|t| t.1).collect();
                for (k, set) in keys.iter_mut() {
                    if !taken_ks.contains(k) {
                        set.clear();
                    }
                }
                // ---- back to rest and capacity probe
                for (c, k) in held.drain(..) {
                    let _ = return_seq.insert(k, server.seq.load(Ordering::SeqCst));
                    idle.push(k);
                    drop(c);
                }
                let mut probe = Vec::new();
                for i in 0..max_size {
                    match tokio::time::timeout(Duration::from_secs(10), pool.get()).await {
                        Ok(Ok(c)) => match ident(&c).await {
                            Ok(k) => {
                                if dead.contains(&k) || c.is_closed() {
                                    v!("failed_client_reissued", "probe: conn {} handed out although dead", k);
                                }
                                probe.push(c);
                            }
                            Err(e) => v!("closed_client_issued", "probe: unusable client handed out ({}, closed={})", e, c.is_closed()),
                        },
                        Ok(Err(e)) => v!("capacity", "probe get {} of {} failed: {:?}", i + 1, max_size, e),
                        Err(_) => v!("capacity", "probe get {} of {} hangs", i + 1, max_size),
                    }
                }
                drop(probe);
                break;
            }
            if held.is_empty() && idle.is_empty() {
                continue;
            }
            match x {
                // ------------------------------------------------ return
                30..=44 if !held.is_empty() => {
                    let i = rng.usize_below(held.len());
                    let (c, k) = held.swap_remove(i);
                    let _ = return_seq.insert(k, server.seq.load(Ordering::SeqCst));
                    idle.push(k);
                    log.push(format!("return conn {}", k));
                    drop(c);
                }
                // ------------------------------------------------ prepare
                45..=69 if !held.is_empty() => {
                    let i = rng.usize_below(held.len());
                    let (q, types) = rng.pick(&cat).clone();
                    let k = held[i].1;
                    if dead.contains(&k) {
                        continue;
                    }
                    let oids: Vec<u32> = types.iter().map(|t| t.oid()).collect();
                    let key: Key = (q.clone(), oids.clone());
                    let st = server.conn(k);
                    let before = st.lock().unwrap().log.len();
                    let mut tx_seen: Option<usize> = None;
                    // the same cache is reached in four ways: inherent methods or the GenericClient trait,
                    // on the client itself or inside a transaction
                    let via = rng.below(4);
                    *counters.entry(format!("prepare_via:{}", ["client", "client_trait", "transaction", "transaction_trait"][via as usize])).or_insert(0) += 1;
                    let mut before = before;
                    let r = match via {
                        0 => {
                            if types.is_empty() && rng.chance(1, 2) {
                                tokio::time::timeout(Duration::from_secs(10), held[i].0.prepare_cached(&q)).await
                            } else {
                                tokio::time::timeout(Duration::from_secs(10), held[i].0.prepare_typed_cached(&q, &types)).await
                            }
                        }
                        1 => {
                            use deadpool_postgres::GenericClient;
                            let cw: &deadpool_postgres::Client = &held[i].0;
                            tokio::time::timeout(Duration::from_secs(10), GenericClient::prepare_typed_cached(cw, &q, &types)).await
                        }
                        _ => {
                            let tx = match tokio::time::timeout(Duration::from_secs(10), held[i].0.transaction()).await {
                                Ok(Ok(tx)) => tx,
                                other => {
                                    v!("harness", "could not start a transaction on conn {}: {:?}", k, other.map(|r| r.map(|_| ()).map_err(|e| e.to_string())));
                                    continue;
                                }
                            };
                            before = st.lock().unwrap().log.len();
                            let r = if via == 2 {
                                tokio::time::timeout(Duration::from_secs(10), tx.prepare_typed_cached(&q, &types)).await
                            } else {
                                use deadpool_postgres::GenericClient;
                                tokio::time::timeout(Duration::from_secs(10), GenericClient::prepare_typed_cached(&tx, &q, &types)).await
                            };
                            // remember what the server saw for the prepare alone, then finish the transaction
                            let seen = st.lock().unwrap().log.len();
                            let _ = tokio::time::timeout(Duration::from_secs(10), tx.commit()).await;
                            tx_seen = Some(seen);
                            r
                        }
                    };
                    let stmt = match r {
                        Ok(Ok(s)) => {
                            if q.contains("syntax_error") {
                                v!("failed_prepare_returned_statement", "conn {}: the server refused {:?} but a statement was returned", k, key);
                            }
                            s
                        }
                        Ok(Err(e)) => {
                            if q.contains("syntax_error") {
                                // a refused statement must not be cached
                                *counters.entry("refused_prepares".into()).or_insert(0) += 1;
                                let want_size = keys.get(&k).map(|s| s.len()).unwrap_or(0);
                                if held[i].0.statement_cache.size() != want_size {
                                    v!("cache_size", "conn {}: a refused prepare changed statement_cache.size() to {} ({} keys cached)", k, held[i].0.statement_cache.size(), want_size);
                                }
                            } else {
                                v!("prepare_failed", "prepare of {:?} on conn {} failed: {}", key, k, e);
                            }
                            continue;
                        }
                        Err(_) => {
                            v!("harness", "prepare on conn {} hangs", k);
                            continue;
                        }
                    };
                    let after: Vec<Front> = {
                        let g = st.lock().unwrap();
                        let end = tx_seen.unwrap_or(g.log.len());
                        g.log[before..end].iter().map(|x| x.1.clone()).collect()
                    };
                    let hit = keys.get(&k).map(|s| s.contains(&key)).unwrap_or(false);
                    if hit {
                        *counters.entry("cache_hits".into()).or_insert(0) += 1;
                        if !after.is_empty() {
                            v!("cache_hit_traffic", "conn {}: cached key {:?} caused server traffic {:?}", k, key, after);
                        }
                    } else {
                        *counters.entry("cache_misses".into()).or_insert(0) += 1;
                        let parsed_ok = after.iter().any(|f| matches!(f, Front::Parse { sql, types, .. } if *sql == q && *types == oids));
                        if !parsed_ok {
                            v!("prepare_not_on_this_connection", "conn {}: prepare of {:?} did not reach this connection as Parse with these types (saw {:?})", k, key, after);
                        }
                    }
                    let _ = keys.entry(k).or_default().insert(key.clone());
                    // use the statement: the server tells which prepared statement is bound
                    let p_int = 1i32;
                    let p_txt = "x";
                    let n_params = if q.contains("$2") { 2 } else if q.contains("$1") { 1 } else { 0 };
                    let mut params: Vec<&(dyn ToSql + Sync)> = Vec::new();
                    for j in 0..n_params {
                        match types.get(j) {
                            Some(t) if *t == Type::INT4 => params.push(&p_int),
                            _ => params.push(&p_txt),
                        }
                    }
                    let before = st.lock().unwrap().log.len();
                    match tokio::time::timeout(Duration::from_secs(10), held[i].0.execute(&stmt, &params)).await {
                        Ok(Ok(_)) => {
                            let g = st.lock().unwrap();
                            let bound = g.log[before..].iter().find_map(|x| match &x.1 {
                                Front::Bind { stmt } => Some(stmt.clone()),
                                _ => None,
                            });
                            match bound.as_ref().and_then(|b| g.parsed.get(b)) {
                                Some((sql, ty)) => {
                                    let ty_eff: Vec<u32> = ty.clone();
                                    if *sql != q || ty_eff != oids {
                                        v!("wrong_statement", "conn {}: asked for {:?} but the statement executed was prepared as ({:?}, {:?})", k, key, sql, ty);
                                    }
                                }
                                None => v!("foreign_statement", "conn {}: the statement returned for {:?} is not prepared on this connection (bound {:?})", k, key, bound),
                            }
                        }
                        Ok(Err(e)) => v!("foreign_statement", "conn {}: executing the statement returned for {:?} failed: {}", k, key, e),
                        Err(_) => v!("harness", "execute on conn {} hangs", k),
                    }
                    let want_size = keys.get(&k).map(|s| s.len()).unwrap_or(0);
                    if held[i].0.statement_cache.size() != want_size {
                        v!("cache_size", "conn {}: statement_cache.size() = {} but {} distinct keys were cached", k, held[i].0.statement_cache.size(), want_size);
                    }
                    if keys[&k].iter().filter(|kk| kk.0 == q).count() > 1 {
                        nontrivial = true;
                    }
                }
                // ------------------------------------------------ two prepares of one key in flight at once
                70..=71 if !held.is_empty() => {
                    let i = rng.usize_below(held.len());
                    let (q, types) = rng.pick(&cat).clone();
                    let k = held[i].1;
                    if dead.contains(&k) {
                        continue;
                    }
                    let key: Key = (q.clone(), types.iter().map(|t| t.oid()).collect());
                    let c = &held[i].0;
                    let r = tokio::time::timeout(Duration::from_secs(10), async { tokio::join!(c.prepare_typed_cached(&q, &types), c.prepare_typed_cached(&q, &types)) }).await;
                    match r {
                        Ok((Ok(_), Ok(_))) => {
                            let _ = keys.entry(k).or_default().insert(key.clone());
                            *counters.entry("concurrent_prepares".into()).or_insert(0) += 1;
                            nontrivial = true;
                            let want_size = keys[&k].len();
                            if held[i].0.statement_cache.size() != want_size {
                                v!("cache_size", "conn {}: after two concurrent prepares of {:?} size() = {} but {} distinct keys are cached", k, key, held[i].0.statement_cache.size(), want_size);
                            }
                        }
                        Ok((a, b)) => {
                            if !q.contains("syntax_error") {
                                v!("prepare_failed", "concurrent prepare of {:?} on conn {} failed: {:?} {:?}", key, k, a.err().map(|e| e.to_string()), b.err().map(|e| e.to_string()));
                            }
                        }
                        Err(_) => v!("harness", "concurrent prepare on conn {} hangs", k),
                    }
                }
                // ------------------------------------------------ take
                72..=74 if !held.is_empty() => {
                    let i = rng.usize_below(held.len());
                    let (c, k) = held.swap_remove(i);
                    log.push(format!("take conn {}", k));
                    taken.push((deadpool_postgres::Client::take(c), k));
                }
                // ------------------------------------------------ registry: clear / remove
                75..=82 => {
                    let remove_key = if rng.chance(1, 2) { Some(rng.pick(&cat).clone()) } else { None };
                    match &remove_key {
                        None => pool.manager().statement_caches.clear(),
                        Some((q, t)) => pool.manager().statement_caches.remove(q, t),
                    }
                    log.push(format!("registry {:?}", remove_key.as_ref().map(|k| &k.0)));
                    nontrivial = true;
                    check_discarded(&mut viol, "after a registry call");
                    let taken_ks: HashSet<usize> = taken.iter().map(|t| t.1).collect();
                    for (k, set) in keys.iter_mut() {
                        if taken_ks.contains(k) {
                            continue;
                        }
                        match &remove_key {
                            None => set.clear(),
                            Some((q, t)) => {
                                let _ = set.remove(&(q.clone(), t.iter().map(|x| x.oid()).collect()));
                            }
                        }
                    }
                    for (c, k) in &held {
                        let want = keys.get(k).map(|s| s.len()).unwrap_or(0);
                        if c.statement_cache.size() != want {
                            v!("registry_missed_client", "after the registry call conn {} (checked out) has {} cached statements, expected {}", k, c.statement_cache.size(), want);
                        }
                    }
                    for (c, k) in &taken {
                        let want = keys.get(k).map(|s| s.len()).unwrap_or(0);
                        if c.statement_cache.size() != want {
                            v!("registry_touched_taken_client", "the registry call changed the cache of conn {} which was taken out of the pool ({} statements, expected {})", k, c.statement_cache.size(), want);
                        }
                    }
                }
                // ------------------------------------------------ server-side trouble on an idle connection
                83..=92 if !idle.is_empty() => {
                    let k = *rng.pick(&idle);
                    if dead.contains(&k) {
                        continue;
                    }
                    let st = server.conn(k);
                    // (a pool built from a Config drives its connections itself: the harness cannot see when an
                    // idle one has noticed the end of its socket, so there the trouble comes with the next check)
                    if via_config && expected_check.is_none() {
                        continue;
                    }
                    if !via_config && (rng.chance(1, 2) || expected_check.is_none()) {
                        st.lock().unwrap().kill = true;
                        for _ in 0..4000 {
                            if is_finished(k) {
                                break;
                            }
                            tokio::time::sleep(Duration::from_micros(250)).await;
                        }
                        if !is_finished(k) {
                            v!("harness", "conn {} did not finish after the server closed it", k);
                        }
                        log.push(format!("server closed conn {}", k));
                    } else {
                        let f = if rng.chance(1, 2) { QueryFault::Error } else { QueryFault::Disconnect };
                        st.lock().unwrap().fault_next_query = Some(f);
                        log.push(format!("next check on conn {} will {:?}", k, f));
                    }
                    let _ = dead.insert(k);
                    *counters.entry("server_faults".into()).or_insert(0) += 1;
                }
                // ------------------------------------------------ the server drops a connection that is checked out
                97..=98 if !held.is_empty() => {
                    let i = rng.usize_below(held.len());
                    let k = held[i].1;
                    let st = server.conn(k);
                    st.lock().unwrap().kill = true;
                    let over = |c: &deadpool_postgres::Client| if via_config { c.is_closed() } else { is_finished(k) };
                    for _ in 0..4000 {
                        if over(&held[i].0) {
                            break;
                        }
                        tokio::time::sleep(Duration::from_micros(250)).await;
                    }
                    if over(&held[i].0) {
                        log.push(format!("server closed checked-out conn {}", k));
                        let _ = dead.insert(k);
                        *counters.entry("server_faults".into()).or_insert(0) += 1;
                        let (c, k) = held.swap_remove(i);
                        if rng.chance(1, 3) {
                            // the dead client is taken out of the pool instead: it leaves the registry like any other
                            log.push(format!("take dead conn {}", k));
                            taken.push((deadpool_postgres::Client::take(c), k));
                        } else {
                            // give it back at once: nothing else may be done with it
                            let _ = return_seq.insert(k, server.seq.load(Ordering::SeqCst));
                            idle.push(k);
                            drop(c);
                        }
                    } else {
                        v!("harness", "conn {} did not finish after the server closed it", k);
                    }
                }
                // ------------------------------------------------ resize: release idle clients
                93..=96 => {
                    pool.resize(0);
                    // every client that is out is now owed to the shrink: a take in this state must leave the
                    // pool (and the registry) just like any other take
                    if !held.is_empty() && rng.chance(1, 2) {
                        let i = rng.usize_below(held.len());
                        let (c, k) = held.swap_remove(i);
                        log.push(format!("take conn {} while the pool is shrunk to 0", k));
                        taken.push((deadpool_postgres::Client::take(c), k));
                        *counters.entry("takes_under_shrink".into()).or_insert(0) += 1;
                    }
                    pool.resize(max_size);
                    for k in idle.drain(..) {
                        let _ = dead.insert(k);
                    }
                    log.push("resize(0) + resize(max)".into());
                }
                _ => {}
            }
        }
        drop(held);
        drop(taken);
        drop(pool);
    });
    let mut h = Hasher::default();
    h.str(&config_desc);
    for l in &log {
        h.str(l);
    }
    for (k, v) in &counters {
        h.str(k);
        h.u64(*v);
    }
    Case {
        violations: viol,
        hash: h.0,
        nontrivial,
        events: log.len() as u64 + counters.values().sum::<u64>(),
        counters,
        desc: Json::obj().with("engine", "c16").with("seed", seed).with("index", idx).with("config", config_desc).with("log", log.iter().map(|s| Json::from(s.as_str())).collect::<Vec<_>>()),
    }
}

/// The statement cache of one client against a second OS thread that keeps clearing it (a `clear()` through the
/// registry or on the cache itself is allowed from anywhere). At rest `size()` must again be the number of keys
/// that are really cached - decided by preparing every statement once more and looking at the server's log:
/// a statement that is cached causes no `Parse`.
pub fn cache_race(seed: u64, idx: u64) -> Case {
    let mut rng = Rng::derive(seed, 0xC16A, idx);
    let rounds = rng.range(50, 400) as usize;
    let via_registry = rng.chance(1, 2);
    // every third case: the other thread only removes a key that is not there - the cache never changes, so every
    // prepare after the first of its kind is a hit and must not reach the server
    let absent_only = idx % 3 == 2;
    let config_desc = format!("cache race: rounds={} clear_via_registry={} other_thread_removes_absent_key_only={}", rounds, via_registry, absent_only);
    let rt = tokio::runtime::Builder::new_current_thread().enable_all().build().expect("rt");
    let mut viol: Vec<Violation> = Vec::new();
    let mut log: Vec<String> = vec![config_desc.clone()];
    let mut counters: BTreeMap<String, u64> = BTreeMap::new();
    rt.block_on(async {
        let server = Arc::new(ServerState::default());
        let finished: Arc<Mutex<HashMap<usize, Arc<AtomicBool>>>> = Arc::new(Mutex::new(HashMap::new()));
        let mut pgc = tokio_postgres::Config::new();
        let _ = pgc.user("u").dbname("d");
        let mgr = Manager::from_connect(pgc, VConnect { server: server.clone(), finished: finished.clone(), linger: false }, ManagerConfig { recycling_method: RecyclingMethod::Fast });
        let pool: Pool = Pool::builder(mgr).max_size(1).build().expect("build");
        let client = match tokio::time::timeout(Duration::from_secs(10), pool.get()).await {
            Ok(Ok(c)) => c,
            _ => {
                viol.push(Violation { prop: "C16", oracle: "harness", msg: "no client".into() });
                return;
            }
        };
        let cat: Vec<(String, Vec<Type>)> = catalogue().into_iter().filter(|(q, _)| !q.contains("syntax_error")).collect();
        let stop = Arc::new(AtomicBool::new(false));
        let clears = Arc::new(std::sync::atomic::AtomicU64::new(0));
        let clearer = {
            let (stop, clears) = (stop.clone(), clears.clone());
            let cache = client.statement_cache.clone();
            let p2 = pool.clone();
            std::thread::spawn(move || {
                while !stop.load(Ordering::Relaxed) {
                    if absent_only {
                        if via_registry {
                            p2.manager().statement_caches.remove("SELECT 'nobody prepared this'", &[]);
                        } else {
                            drop(cache.remove("SELECT 'nobody prepared this'", &[]));
                        }
                    } else if via_registry {
                        p2.manager().statement_caches.clear();
                    } else {
                        cache.clear();
                    }
                    let _ = clears.fetch_add(1, Ordering::Relaxed);
                    for _ in 0..50 {
                        std::hint::spin_loop();
                    }
                }
            })
        };
        for r in 0..rounds {
            let (q, types) = &cat[r % cat.len()];
            match tokio::time::timeout(Duration::from_secs(10), client.prepare_typed_cached(q, types)).await {
                Ok(Ok(_)) => {}
                Ok(Err(e)) => {
                    viol.push(Violation { prop: "C16", oracle: "prepare_failed", msg: format!("prepare of {:?} failed while the cache was being cleared: {}", q, e) });
                    break;
                }
                Err(_) => {
                    viol.push(Violation { prop: "C16", oracle: "harness", msg: "prepare hangs".into() });
                    break;
                }
            }
        }
        stop.store(true, Ordering::SeqCst);
        let _ = clearer.join();
        if absent_only && viol.is_empty() {
            let parses = server.conn(0).lock().unwrap().log.iter().filter(|(_, f)| matches!(f, Front::Parse { .. })).count();
            let distinct = rounds.min(cat.len());
            if parses != distinct {
                viol.push(Violation { prop: "C16", oracle: "cache_hit_traffic", msg: format!("{} prepares of {} distinct statements while another thread removed an absent key: the server saw {} Parse messages (every repeat is a cache hit)", rounds, distinct, parses) });
            }
        }
        let _ = counters.insert("race_clears".into(), clears.load(Ordering::Relaxed));
        let _ = counters.insert("race_prepares".into(), rounds as u64);
        if viol.is_empty() {
            // at rest: size() against the keys that are really there
            let size0 = client.statement_cache.size();
            let st = server.conn(0);
            let parses = |st: &Arc<Mutex<crate::server::ConnState>>| st.lock().unwrap().log.iter().filter(|(_, f)| matches!(f, Front::Parse { .. })).count();
            let mut hits = 0usize;
            for (q, types) in &cat {
                let before = parses(&st);
                match tokio::time::timeout(Duration::from_secs(10), client.prepare_typed_cached(q, types)).await {
                    Ok(Ok(_)) => {
                        if parses(&st) == before {
                            hits += 1;
                        }
                    }
                    other => {
                        viol.push(Violation { prop: "C16", oracle: "prepare_failed", msg: format!("probe prepare of {:?}: {:?}", q, other.map(|r| r.map(|_| ()).map_err(|e| e.to_string()))) });
                        break;
                    }
                }
            }
            log.push(format!("{} clears raced {} prepares; at rest size() = {}, {} keys were cached", clears.load(Ordering::Relaxed), rounds, size0, hits));
            if viol.is_empty() && size0 != hits {
                viol.push(Violation { prop: "C16", oracle: "cache_size", msg: format!("after clear() raced with prepares: statement_cache.size() = {} but {} statements were cached (no Parse when prepared again)", size0, hits) });
            }
            let size1 = client.statement_cache.size();
            if viol.is_empty() && size1 != cat.len() {
                viol.push(Violation { prop: "C16", oracle: "cache_size", msg: format!("all {} statements of the catalogue are cached now but size() = {}", cat.len(), size1) });
            }
        }
        drop(client);
        drop(pool);
    });
    let mut h = Hasher::default();
    h.str(&config_desc);
    Case {
        violations: viol,
        hash: h.0,
        nontrivial: true,
        events: counters.values().sum(),
        counters,
        desc: Json::obj().with("engine", "c16_cache_race").with("seed", seed).with("index", idx).with("config", config_desc).with("log", log.iter().map(|s| Json::from(s.as_str())).collect::<Vec<_>>()),
    }
}

/// A registry-wide `clear()` on a second OS thread against `Object::take()`. Once `take()` has returned, the
/// taken client's cache belongs to the caller: a `clear()` that overlaps the take may have emptied it before
/// the take returned, or not at all - it cannot empty it afterwards. (size right after take) == (size after
/// the overlapping clear has finished).
pub fn registry_race(seed: u64, idx: u64) -> Case {
    let mut rng = Rng::derive(seed, 0xC16B, idx);
    let clients = rng.range(3, 10) as usize;
    let trials = 30usize;
    let config_desc = format!("registry race: clients={} trials={}", clients, trials);
    let rt = tokio::runtime::Builder::new_current_thread().enable_all().build().expect("rt");
    let mut viol: Vec<Violation> = Vec::new();
    let mut log: Vec<String> = vec![config_desc.clone()];
    let mut counters: BTreeMap<String, u64> = BTreeMap::new();
    rt.block_on(async {
        let server = Arc::new(ServerState::default());
        let finished: Arc<Mutex<HashMap<usize, Arc<AtomicBool>>>> = Arc::new(Mutex::new(HashMap::new()));
        let mut pgc = tokio_postgres::Config::new();
        let _ = pgc.user("u").dbname("d");
        let mgr = Manager::from_connect(pgc, VConnect { server: server.clone(), finished: finished.clone(), linger: false }, ManagerConfig { recycling_method: RecyclingMethod::Fast });
        let pool: Pool = Pool::builder(mgr).max_size(clients + 1).build().expect("build");
        let cat: Vec<(String, Vec<Type>)> = catalogue().into_iter().filter(|(q, _)| !q.contains("syntax_error")).collect();
        // the bystanders: registered first, with full caches (they make the sweep take a while)
        let mut others = Vec::new();
        for _ in 0..clients {
            match tokio::time::timeout(Duration::from_secs(10), pool.get()).await {
                Ok(Ok(c)) => others.push(c),
                _ => {
                    viol.push(Violation { prop: "C16", oracle: "harness", msg: "no client".into() });
                    return;
                }
            }
        }
        let go = Arc::new(std::sync::atomic::AtomicU64::new(0));
        let done = Arc::new(std::sync::atomic::AtomicU64::new(0));
        let stop = Arc::new(AtomicBool::new(false));
        let clearer = {
            let (go, done, stop, p2) = (go.clone(), done.clone(), stop.clone(), pool.clone());
            std::thread::spawn(move || {
                let mut seen = 0;
                while !stop.load(Ordering::SeqCst) {
                    let g = go.load(Ordering::SeqCst);
                    if g > seen {
                        seen = g;
                        p2.manager().statement_caches.clear();
                        done.store(g, Ordering::SeqCst);
                    } else {
                        std::hint::spin_loop();
                    }
                }
            })
        };
        let mut emptied_after_take = 0u64;
        let mut cleared_before_take = 0u64;
        for trial in 0..trials {
            // fill every cache again
            for c in &others {
                for (q, types) in &cat {
                    let _ = tokio::time::timeout(Duration::from_secs(10), c.prepare_typed_cached(q, types)).await;
                }
            }
            let victim = match tokio::time::timeout(Duration::from_secs(10), pool.get()).await {
                Ok(Ok(c)) => c,
                _ => break,
            };
            for (q, types) in cat.iter().take(3) {
                let _ = tokio::time::timeout(Duration::from_secs(10), victim.prepare_typed_cached(q, types)).await;
            }
            let before = victim.statement_cache.size();
            // one clear() starts now; the take lands somewhere inside it
            let ticket = trial as u64 + 1;
            go.store(ticket, Ordering::SeqCst);
            let spin = rng.below(4000);
            for _ in 0..spin {
                std::hint::spin_loop();
            }
            let taken = deadpool_postgres::Client::take(victim);
            let s1 = taken.statement_cache.size();
            let t0 = std::time::Instant::now();
            while done.load(Ordering::SeqCst) < ticket && t0.elapsed() < Duration::from_secs(10) {
                std::hint::spin_loop();
            }
            let s2 = taken.statement_cache.size();
            if s1 == 0 && before > 0 {
                cleared_before_take += 1;
            }
            if s2 != s1 {
                emptied_after_take += 1;
                if viol.is_empty() {
                    viol.push(Violation { prop: "C16", oracle: "registry_touched_taken_client", msg: format!("trial {}: the taken client's cache held {} statements when take() returned and {} after the overlapping statement_caches.clear() had finished", trial, s1, s2) });
                }
            }
            drop(taken);
        }
        stop.store(true, Ordering::SeqCst);
        let _ = clearer.join();
        let _ = counters.insert("registry_race_trials".into(), trials as u64);
        let _ = counters.insert("clear_won_the_race".into(), cleared_before_take);
        log.push(format!("{} trials, clear() emptied the victim before the take in {}, after it in {}", trials, cleared_before_take, emptied_after_take));
        drop(others);
        drop(pool);
    });
    let mut h = Hasher::default();
    h.str(&config_desc);
    h.u64(idx);
    Case {
        violations: viol,
        hash: h.0,
        nontrivial: true,
        events: counters.values().sum(),
        counters,
        desc: Json::obj().with("engine", "c16_registry_race").with("seed", seed).with("index", idx).with("config", config_desc).with("log", log.iter().map(|s| Json::from(s.as_str())).collect::<Vec<_>>()),
    }
}
