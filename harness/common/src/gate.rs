//! Thread-level schedule control used by the TH engines: a point handler that
//! can park one designated thread at a named schedule point until released
//! (one-preemption sweep) or inject random delays (chaos).

use std::sync::{Condvar, Mutex};
use std::time::{Duration, Instant};

/// A latch a thread can park on.
#[derive(Default)]
pub struct Latch {
    state: Mutex<LatchState>,
    cv: Condvar,
}

#[derive(Default)]
struct LatchState {
    /// set when the designated thread arrived at the point
    arrived: bool,
    /// set by the controller to let the parked thread continue
    released: bool,
}

impl Latch {
    pub fn new() -> Self {
        Self::default()
    }
    /// Called by the parked thread. Returns false if the watchdog expired.
    pub fn arrive_and_wait(&self, watchdog: Duration) -> bool {
        let mut st = self.state.lock().unwrap();
        st.arrived = true;
        self.cv.notify_all();
        let deadline = Instant::now() + watchdog;
        while !st.released {
            let now = Instant::now();
            if now >= deadline {
                return false;
            }
            let (g, _) = self.cv.wait_timeout(st, deadline - now).unwrap();
            st = g;
        }
        true
    }
    /// Called by the controller: waits until the thread is parked.
    pub fn wait_arrived(&self, watchdog: Duration) -> bool {
        let mut st = self.state.lock().unwrap();
        let deadline = Instant::now() + watchdog;
        while !st.arrived {
            let now = Instant::now();
            if now >= deadline {
                return false;
            }
            let (g, _) = self.cv.wait_timeout(st, deadline - now).unwrap();
            st = g;
        }
        true
    }
    pub fn has_arrived(&self) -> bool {
        self.state.lock().unwrap().arrived
    }
    pub fn release(&self) {
        let mut st = self.state.lock().unwrap();
        st.released = true;
        self.cv.notify_all();
    }
}
