//! Shared pieces of the deadpool runtime-monitoring harness: PRNG, a tiny JSON
//! value type, evidence / replay writers, violation bookkeeping, hashing.

use std::collections::{BTreeMap, HashSet};
use std::fmt::Write as _;
use std::time::Instant;

pub mod gate;

// ---------------------------------------------------------------- PRNG

/// splitmix64 based PRNG; deterministic per seed, cheap, good enough.
#[derive(Clone, Debug)]
pub struct Rng(pub u64);

impl Rng {
    pub fn new(seed: u64) -> Self {
        let mut r = Rng(seed ^ 0x9E37_79B9_7F4A_7C15);
        let _ = r.next_u64();
        r
    }
    /// Derives an independent stream.
    pub fn derive(seed: u64, a: u64, b: u64) -> Self {
        let mut r = Rng::new(seed);
        r.0 ^= a.wrapping_mul(0xBF58_476D_1CE4_E5B9);
        let _ = r.next_u64();
        r.0 ^= b.wrapping_mul(0x94D0_49BB_1331_11EB);
        let _ = r.next_u64();
        r
    }
    pub fn next_u64(&mut self) -> u64 {
        self.0 = self.0.wrapping_add(0x9E37_79B9_7F4A_7C15);
        let mut z = self.0;
        z = (z ^ (z >> 30)).wrapping_mul(0xBF58_476D_1CE4_E5B9);
        z = (z ^ (z >> 27)).wrapping_mul(0x94D0_49BB_1331_11EB);
        z ^ (z >> 31)
    }
    /// Uniform in `0..n` (n > 0).
    pub fn below(&mut self, n: u64) -> u64 {
        debug_assert!(n > 0);
        self.next_u64() % n
    }
    pub fn usize_below(&mut self, n: usize) -> usize {
        self.below(n as u64) as usize
    }
    /// inclusive range
    pub fn range(&mut self, lo: u64, hi: u64) -> u64 {
        lo + self.below(hi - lo + 1)
    }
    pub fn chance(&mut self, num: u64, den: u64) -> bool {
        self.below(den) < num
    }
    pub fn pick<'a, T>(&mut self, xs: &'a [T]) -> &'a T {
        &xs[self.usize_below(xs.len())]
    }
    /// Picks an index according to the weights (sum must be > 0).
    pub fn weighted(&mut self, weights: &[u32]) -> usize {
        let total: u64 = weights.iter().map(|w| *w as u64).sum();
        assert!(total > 0, "weighted(): all weights are zero");
        let mut x = self.below(total);
        for (i, w) in weights.iter().enumerate() {
            if x < *w as u64 {
                return i;
            }
            x -= *w as u64;
        }
        unreachable!()
    }
}

// ---------------------------------------------------------------- hashing

pub fn fnv1a(bytes: &[u8]) -> u64 {
    let mut h: u64 = 0xcbf2_9ce4_8422_2325;
    for b in bytes {
        h ^= *b as u64;
        h = h.wrapping_mul(0x0000_0100_0000_01B3);
    }
    h
}

#[derive(Clone, Debug)]
pub struct Hasher(pub u64);
impl Default for Hasher {
    fn default() -> Self {
        Hasher(0xcbf2_9ce4_8422_2325)
    }
}
impl Hasher {
    pub fn bytes(&mut self, bytes: &[u8]) {
        for b in bytes {
            self.0 ^= *b as u64;
            self.0 = self.0.wrapping_mul(0x0000_0100_0000_01B3);
        }
    }
    pub fn str(&mut self, s: &str) {
        self.bytes(s.as_bytes());
        self.bytes(&[0xff]);
    }
    pub fn u64(&mut self, x: u64) {
        self.bytes(&x.to_le_bytes());
    }
}

// ---------------------------------------------------------------- JSON

#[derive(Clone, Debug, PartialEq)]
pub enum Json {
    Null,
    Bool(bool),
    Int(i64),
    Num(f64),
    Str(String),
    Arr(Vec<Json>),
    Obj(BTreeMap<String, Json>),
}

impl Json {
    pub fn obj() -> Json {
        Json::Obj(BTreeMap::new())
    }
    pub fn set(&mut self, k: &str, v: impl Into<Json>) -> &mut Self {
        if let Json::Obj(m) = self {
            let _ = m.insert(k.to_string(), v.into());
        } else {
            panic!("Json::set on non-object");
        }
        self
    }
    pub fn with(mut self, k: &str, v: impl Into<Json>) -> Self {
        let _ = self.set(k, v);
        self
    }
    pub fn get(&self, k: &str) -> Option<&Json> {
        match self {
            Json::Obj(m) => m.get(k),
            _ => None,
        }
    }
    pub fn as_i64(&self) -> Option<i64> {
        match self {
            Json::Int(i) => Some(*i),
            Json::Num(f) => Some(*f as i64),
            _ => None,
        }
    }
    pub fn as_str(&self) -> Option<&str> {
        match self {
            Json::Str(s) => Some(s),
            _ => None,
        }
    }
    pub fn as_arr(&self) -> Option<&Vec<Json>> {
        match self {
            Json::Arr(a) => Some(a),
            _ => None,
        }
    }
    pub fn render(&self) -> String {
        let mut s = String::new();
        self.write(&mut s, 0);
        s
    }
    fn write(&self, out: &mut String, ind: usize) {
        match self {
            Json::Null => out.push_str("null"),
            Json::Bool(b) => out.push_str(if *b { "true" } else { "false" }),
            Json::Int(i) => {
                let _ = write!(out, "{}", i);
            }
            Json::Num(f) => {
                if f.is_finite() {
                    let _ = write!(out, "{:.3}", f);
                } else {
                    out.push_str("null");
                }
            }
            Json::Str(s) => write_str(out, s),
            Json::Arr(a) => {
                if a.is_empty() {
                    out.push_str("[]");
                    return;
                }
                let simple = a
                    .iter()
                    .all(|x| !matches!(x, Json::Arr(_) | Json::Obj(_)));
                out.push('[');
                for (i, x) in a.iter().enumerate() {
                    if i > 0 {
                        out.push(',');
                    }
                    if !simple {
                        out.push('\n');
                        pad(out, ind + 1);
                    } else if i > 0 {
                        out.push(' ');
                    }
                    x.write(out, ind + 1);
                }
                if !simple {
                    out.push('\n');
                    pad(out, ind);
                }
                out.push(']');
            }
            Json::Obj(m) => {
                if m.is_empty() {
                    out.push_str("{}");
                    return;
                }
                out.push('{');
                for (i, (k, v)) in m.iter().enumerate() {
                    if i > 0 {
                        out.push(',');
                    }
                    out.push('\n');
                    pad(out, ind + 1);
                    write_str(out, k);
                    out.push_str(": ");
                    v.write(out, ind + 1);
                }
                out.push('\n');
                pad(out, ind);
                out.push('}');
            }
        }
    }
}

fn pad(out: &mut String, n: usize) {
    for _ in 0..n {
        out.push(' ');
    }
}

fn write_str(out: &mut String, s: &str) {
    out.push('"');
    for c in s.chars() {
        match c {
            '"' => out.push_str("\\\""),
            '\\' => out.push_str("\\\\"),
            '\n' => out.push_str("\\n"),
            '\r' => out.push_str("\\r"),
            '\t' => out.push_str("\\t"),
            c if (c as u32) < 0x20 => {
                let _ = write!(out, "\\u{:04x}", c as u32);
            }
            c => out.push(c),
        }
    }
    out.push('"');
}

impl From<bool> for Json {
    fn from(v: bool) -> Self {
        Json::Bool(v)
    }
}
impl From<i64> for Json {
    fn from(v: i64) -> Self {
        Json::Int(v)
    }
}
impl From<u64> for Json {
    fn from(v: u64) -> Self {
        Json::Int(v as i64)
    }
}
impl From<usize> for Json {
    fn from(v: usize) -> Self {
        Json::Int(v as i64)
    }
}
impl From<u32> for Json {
    fn from(v: u32) -> Self {
        Json::Int(v as i64)
    }
}
impl From<i32> for Json {
    fn from(v: i32) -> Self {
        Json::Int(v as i64)
    }
}
impl From<f64> for Json {
    fn from(v: f64) -> Self {
        Json::Num(v)
    }
}
impl From<&str> for Json {
    fn from(v: &str) -> Self {
        Json::Str(v.to_string())
    }
}
impl From<String> for Json {
    fn from(v: String) -> Self {
        Json::Str(v)
    }
}
impl<T: Into<Json>> From<Vec<T>> for Json {
    fn from(v: Vec<T>) -> Self {
        Json::Arr(v.into_iter().map(Into::into).collect())
    }
}
impl From<BTreeMap<String, u64>> for Json {
    fn from(v: BTreeMap<String, u64>) -> Self {
        Json::Obj(v.into_iter().map(|(k, v)| (k, Json::from(v))).collect())
    }
}

/// Minimal JSON parser (used to read replay files written by this crate).
pub fn parse_json(s: &str) -> Result<Json, String> {
    let b = s.as_bytes();
    let mut i = 0;
    let v = parse_value(b, &mut i)?;
    skip_ws(b, &mut i);
    if i != b.len() {
        return Err(format!("trailing data at {}", i));
    }
    Ok(v)
}
fn skip_ws(b: &[u8], i: &mut usize) {
    while *i < b.len() && (b[*i] as char).is_ascii_whitespace() {
        *i += 1;
    }
}
fn parse_value(b: &[u8], i: &mut usize) -> Result<Json, String> {
    skip_ws(b, i);
    if *i >= b.len() {
        return Err("eof".into());
    }
    match b[*i] {
        b'{' => {
            *i += 1;
            let mut m = BTreeMap::new();
            loop {
                skip_ws(b, i);
                if *i < b.len() && b[*i] == b'}' {
                    *i += 1;
                    break;
                }
                let k = match parse_value(b, i)? {
                    Json::Str(s) => s,
                    _ => return Err("key".into()),
                };
                skip_ws(b, i);
                if *i >= b.len() || b[*i] != b':' {
                    return Err("colon".into());
                }
                *i += 1;
                let v = parse_value(b, i)?;
                let _ = m.insert(k, v);
                skip_ws(b, i);
                if *i < b.len() && b[*i] == b',' {
                    *i += 1;
                }
            }
            Ok(Json::Obj(m))
        }
        b'[' => {
            *i += 1;
            let mut a = Vec::new();
            loop {
                skip_ws(b, i);
                if *i < b.len() && b[*i] == b']' {
                    *i += 1;
                    break;
                }
                a.push(parse_value(b, i)?);
                skip_ws(b, i);
                if *i < b.len() && b[*i] == b',' {
                    *i += 1;
                }
            }
            Ok(Json::Arr(a))
        }
        b'"' => {
            *i += 1;
            let mut out = Vec::new();
            while *i < b.len() && b[*i] != b'"' {
                if b[*i] == b'\\' {
                    *i += 1;
                    match b.get(*i) {
                        Some(b'n') => out.push(b'\n'),
                        Some(b't') => out.push(b'\t'),
                        Some(b'r') => out.push(b'\r'),
                        Some(b'u') => {
                            let hex = std::str::from_utf8(&b[*i + 1..*i + 5]).map_err(|e| e.to_string())?;
                            let cp = u32::from_str_radix(hex, 16).map_err(|e| e.to_string())?;
                            let c = char::from_u32(cp).unwrap_or('?');
                            let mut buf = [0u8; 4];
                            out.extend_from_slice(c.encode_utf8(&mut buf).as_bytes());
                            *i += 4;
                        }
                        Some(c) => out.push(*c),
                        None => return Err("eof in string".into()),
                    }
                } else {
                    out.push(b[*i]);
                }
                *i += 1;
            }
            *i += 1;
            Ok(Json::Str(String::from_utf8_lossy(&out).into_owned()))
        }
        b't' => {
            *i += 4;
            Ok(Json::Bool(true))
        }
        b'f' => {
            *i += 5;
            Ok(Json::Bool(false))
        }
        b'n' => {
            *i += 4;
            Ok(Json::Null)
        }
        _ => {
            let st = *i;
            while *i < b.len() && matches!(b[*i], b'-' | b'+' | b'.' | b'e' | b'E' | b'0'..=b'9') {
                *i += 1;
            }
            let t = std::str::from_utf8(&b[st..*i]).map_err(|e| e.to_string())?;
            if let Ok(v) = t.parse::<i64>() {
                Ok(Json::Int(v))
            } else {
                t.parse::<f64>().map(Json::Num).map_err(|e| format!("{}: {:?}", e, t))
            }
        }
    }
}

// ---------------------------------------------------------------- violations

/// One oracle firing.
#[derive(Clone, Debug)]
pub struct Violation {
    /// property id the oracle belongs to
    pub prop: &'static str,
    /// stable name of the oracle
    pub oracle: &'static str,
    /// what was seen
    pub msg: String,
}

// ---------------------------------------------------------------- run context / evidence

#[derive(Clone, Copy, Debug, PartialEq, Eq)]
pub enum Tier {
    Quick,
    Thorough,
}
impl Tier {
    pub fn name(self) -> &'static str {
        match self {
            Tier::Quick => "quick",
            Tier::Thorough => "thorough",
        }
    }
    pub fn pick<T>(self, q: T, t: T) -> T {
        match self {
            Tier::Quick => q,
            Tier::Thorough => t,
        }
    }
}

/// Command line shared by all harness binaries:
/// `<bin> <PROP> <quick|thorough> --seed N --evidence FILE --replays DIR [--only ENGINE] [--jobs N]`
/// or `<bin> replay FILE`.
#[derive(Clone, Debug)]
pub struct Args {
    pub prop: String,
    pub tier: Tier,
    pub seed: u64,
    pub evidence: Option<String>,
    pub replays: String,
    pub only: Option<String>,
    pub jobs: usize,
    pub replay: Option<String>,
    pub scale: f64,
    pub extra: Vec<String>,
}

impl Args {
    pub fn parse() -> Args {
        let av: Vec<String> = std::env::args().skip(1).collect();
        let mut a = Args {
            prop: String::new(),
            tier: Tier::Quick,
            seed: 1,
            evidence: None,
            replays: "replays".to_string(),
            only: None,
            jobs: std::thread::available_parallelism().map(|n| n.get()).unwrap_or(4),
            replay: None,
            scale: 1.0,
            extra: Vec::new(),
        };
        let mut i = 0;
        let mut pos = 0;
        while i < av.len() {
            let s = &av[i];
            let mut val = |i: &mut usize| -> String {
                *i += 1;
                av.get(*i).cloned().unwrap_or_else(|| {
                    eprintln!("missing value for {}", s);
                    std::process::exit(3)
                })
            };
            match s.as_str() {
                "--seed" => a.seed = val(&mut i).parse().unwrap_or(1),
                "--evidence" => a.evidence = Some(val(&mut i)),
                "--replays" => a.replays = val(&mut i),
                "--only" => a.only = Some(val(&mut i)),
                "--jobs" => a.jobs = val(&mut i).parse().unwrap_or(1),
                "--scale" => a.scale = val(&mut i).parse().unwrap_or(1.0),
                _ => {
                    if pos == 0 {
                        a.prop = s.clone();
                    } else if pos == 1 {
                        if a.prop == "replay" {
                            a.replay = Some(s.clone());
                        } else {
                            a.tier = if s == "thorough" { Tier::Thorough } else { Tier::Quick };
                        }
                    } else {
                        a.extra.push(s.clone());
                    }
                    pos += 1;
                }
            }
            i += 1;
        }
        a
    }
    pub fn engine_enabled(&self, name: &str) -> bool {
        match &self.only {
            None => true,
            Some(o) => o.split(',').any(|x| x == name),
        }
    }
}

/// Accumulates what a run observed; merged across worker threads.
#[derive(Default, Debug)]
pub struct Coverage {
    pub evaluations: u64,
    /// hashes of all distinct cases
    pub distinct: HashSet<u64>,
    /// hashes of distinct cases that are non-trivial by the property's rule
    pub nontrivial: HashSet<u64>,
    /// hashes of distinct schedules / interleavings
    pub schedules: HashSet<u64>,
    /// distinct ground-truth / snapshot state tuples
    pub states: HashSet<u64>,
    pub counters: BTreeMap<String, u64>,
    pub samples: Vec<Json>,
    pub inconclusive: Vec<String>,
    pub events: u64,
}

impl Coverage {
    pub fn bump(&mut self, k: &str) {
        *self.counters.entry(k.to_string()).or_insert(0) += 1;
    }
    pub fn add(&mut self, k: &str, n: u64) {
        *self.counters.entry(k.to_string()).or_insert(0) += n;
    }
    pub fn merge(&mut self, o: Coverage) {
        self.evaluations += o.evaluations;
        self.events += o.events;
        self.distinct.extend(o.distinct);
        self.nontrivial.extend(o.nontrivial);
        self.schedules.extend(o.schedules);
        self.states.extend(o.states);
        for (k, v) in o.counters {
            *self.counters.entry(k).or_insert(0) += v;
        }
        for s in o.samples {
            if self.samples.len() < 6 {
                self.samples.push(s);
            }
        }
        for s in o.inconclusive {
            if !self.inconclusive.contains(&s) {
                self.inconclusive.push(s);
            }
        }
    }
    pub fn sample(&mut self, s: Json) {
        if self.samples.len() < 3 {
            self.samples.push(s);
        }
    }
}

/// A confirmed violation together with the material to replay it.
#[derive(Clone, Debug)]
pub struct Finding {
    pub v: Violation,
    /// stable signature used to match `known_findings.txt`
    pub sig: String,
    pub replay: Json,
}

pub struct Report {
    pub prop: String,
    pub tier: Tier,
    pub seed: u64,
    pub level: &'static str,
    pub rule: String,
    pub start: Instant,
    /// engine name -> coverage
    pub engines: BTreeMap<String, Coverage>,
    pub findings: Vec<Finding>,
    pub assumptions: Vec<String>,
    pub exhaustive: Option<bool>,
    pub extra: Json,
}

impl Report {
    pub fn new(args: &Args, level: &'static str, rule: &str) -> Report {
        Report {
            prop: args.prop.clone(),
            tier: args.tier,
            seed: args.seed,
            level,
            rule: rule.to_string(),
            start: Instant::now(),
            engines: BTreeMap::new(),
            findings: Vec::new(),
            assumptions: Vec::new(),
            exhaustive: None,
            extra: Json::obj(),
        }
    }
    pub fn engine(&mut self, name: &str) -> &mut Coverage {
        self.engines.entry(name.to_string()).or_default()
    }
    pub fn add_findings(&mut self, fs: Vec<Finding>) {
        for mut f in fs {
            // signatures are matched as one whitespace-free token by the driver
            f.sig = f.sig.split_whitespace().collect::<Vec<_>>().join("");
            // keep at most a handful per signature
            let n = self.findings.iter().filter(|x| x.sig == f.sig).count();
            if n < 2 && self.findings.len() < 40 {
                self.findings.push(f);
            }
        }
    }

    /// Writes replay files and the evidence file, prints verdict lines.
    /// Returns the process exit code.
    pub fn finish(mut self, args: &Args) -> i32 {
        let wall = self.start.elapsed().as_secs_f64();
        let mut total = Coverage::default();
        let mut per_engine = Json::obj();
        for (name, c) in std::mem::take(&mut self.engines) {
            let mut j = Json::obj();
            let _ = j
                .set("evaluations", c.evaluations)
                .set("distinct_cases", c.distinct.len())
                .set("distinct_nontrivial", c.nontrivial.len())
                .set("distinct_schedules", c.schedules.len())
                .set("distinct_states", c.states.len())
                .set("events_observed", c.events)
                .set("counters", c.counters.clone());
            let _ = per_engine.set(&name, j);
            // namespacing keeps hashes of different engines apart
            let mut cc = Coverage::default();
            let tag = fnv1a(name.as_bytes());
            cc.evaluations = c.evaluations;
            cc.events = c.events;
            cc.distinct = c.distinct.iter().map(|h| h ^ tag).collect();
            cc.nontrivial = c.nontrivial.iter().map(|h| h ^ tag).collect();
            cc.schedules = c.schedules.iter().map(|h| h ^ tag).collect();
            cc.states = c.states.iter().map(|h| h ^ tag).collect();
            cc.samples = c
                .samples
                .iter()
                .map(|s| Json::obj().with("engine", name.as_str()).with("case", s.clone()))
                .collect();
            cc.inconclusive = c.inconclusive.iter().map(|s| format!("{}: {}", name, s)).collect();
            total.merge(cc);
        }
        let mut exit = 0;
        let _ = std::fs::create_dir_all(&args.replays);
        let mut n_viol = 0;
        for (i, f) in self.findings.iter().enumerate() {
            let path = format!("{}/{}-{}-{}.json", args.replays, self.prop, self.seed, i);
            let mut j = f.replay.clone();
            let _ = j
                .set("property", f.v.prop)
                .set("oracle", f.v.oracle)
                .set("message", f.v.msg.as_str())
                .set("signature", f.sig.as_str());
            let _ = std::fs::write(&path, j.render());
            // The driver (vcheck) maps candidates against known_findings.txt.
            println!(
                "VIOLATION-CANDIDATE property={} sig={} replay={} :: {} :: {}",
                f.v.prop, f.sig, path, f.v.oracle, f.v.msg
            );
            n_viol += 1;
            exit = 1;
        }
        for s in &total.inconclusive {
            println!("INCONCLUSIVE property={} what={}", self.prop, s);
        }
        if total.evaluations == 0 || total.events == 0 {
            println!("BROKEN property={} the check observed nothing", self.prop);
            if exit == 0 {
                exit = 3;
            }
        }
        let mut cov = Json::obj();
        let _ = cov
            .set("evaluations", total.evaluations)
            .set("distinct_nontrivial", total.nontrivial.len())
            .set("distinct_cases", total.distinct.len())
            .set("distinct_schedules", total.schedules.len())
            .set("distinct_states", total.states.len())
            .set("events_observed", total.events)
            .set("rule", self.rule.as_str())
            .set("samples", Json::Arr(total.samples.clone()))
            .set("engines", per_engine)
            .set("inconclusive", total.inconclusive.clone())
            .set(
                "violation_signatures",
                self.findings.iter().map(|f| f.sig.clone()).collect::<Vec<_>>(),
            );
        if let Some(e) = self.exhaustive {
            let _ = cov.set("exhaustive", e);
        }
        if let Json::Obj(m) = &self.extra {
            for (k, v) in m {
                let _ = cov.set(k, v.clone());
            }
        }
        let mut ev = Json::obj();
        let _ = ev
            .set("property_id", self.prop.as_str())
            .set("tier", self.tier.name())
            .set("seed", self.seed)
            .set("level", self.level)
            .set("coverage", cov)
            .set("assumptions", self.assumptions.clone())
            .set("wall_s", wall)
            .set("violations", n_viol as i64);
        if let Some(p) = &args.evidence {
            if let Some(dir) = std::path::Path::new(p).parent() {
                let _ = std::fs::create_dir_all(dir);
            }
            // engines run as separate processes append to the same evidence: merge if asked
            if let Err(e) = std::fs::write(p, ev.render()) {
                eprintln!("cannot write evidence {}: {}", p, e);
                exit = 3;
            }
        }
        println!(
            "SUMMARY property={} tier={} seed={} evaluations={} distinct={} nontrivial={} schedules={} states={} events={} violations={} wall={:.1}s",
            self.prop,
            self.tier.name(),
            self.seed,
            total.evaluations,
            total.distinct.len(),
            total.nontrivial.len(),
            total.schedules.len(),
            total.states.len(),
            total.events,
            n_viol,
            wall
        );
        exit
    }
}

/// Payload of every panic the harness injects on purpose.
#[derive(Debug)]
pub struct InjectedPanic(pub u32);

/// Installs a panic hook that stays silent for injected panics and prints
/// everything else.
// ------------------------------------------------------------------ hang watchdog
//
// A call into the code under test that never returns (a self-deadlock, say) cannot be caught in-process: the
// thread is gone for good. Every engine registers the case it is running; a watchdog thread ends the process with
// exit code 4 and a HANG line when one case has been running for longer than the limit. The driver runs the check
// again and only believes a hang that repeats.

static RUNNING: std::sync::Mutex<Vec<(std::thread::ThreadId, std::time::Instant, String)>> = std::sync::Mutex::new(Vec::new());

/// Registers the case the current thread is about to run (until the guard is dropped).
pub struct CaseGuard;
impl CaseGuard {
    pub fn new(desc: String) -> CaseGuard {
        let id = std::thread::current().id();
        let mut r = RUNNING.lock().unwrap_or_else(|e| e.into_inner());
        r.retain(|x| x.0 != id);
        r.push((id, std::time::Instant::now(), desc));
        CaseGuard
    }
}
impl Drop for CaseGuard {
    fn drop(&mut self) {
        let id = std::thread::current().id();
        RUNNING.lock().unwrap_or_else(|e| e.into_inner()).retain(|x| x.0 != id);
    }
}

/// Starts the watchdog thread (limit in seconds; VERIF_HANG_LIMIT overrides it).
pub fn install_hang_watchdog(prop: &str) {
    let limit = std::env::var("VERIF_HANG_LIMIT").ok().and_then(|s| s.parse::<u64>().ok()).unwrap_or(420);
    let prop = prop.to_string();
    let _ = std::thread::Builder::new().name("vh-hang-watchdog".into()).spawn(move || loop {
        std::thread::sleep(std::time::Duration::from_secs(5));
        let stuck: Option<(u64, String)> = {
            let r = RUNNING.lock().unwrap_or_else(|e| e.into_inner());
            r.iter().filter(|x| x.1.elapsed().as_secs() >= limit).map(|x| (x.1.elapsed().as_secs(), x.2.clone())).next()
        };
        if let Some((secs, desc)) = stuck {
            let d: String = desc.split_whitespace().collect::<Vec<_>>().join("_");
            println!("HANG property={} seconds={} case={}", prop, secs, d);
            use std::io::Write;
            let _ = std::io::stdout().flush();
            std::process::exit(4);
        }
    });
}

pub fn install_panic_hook() {
    static SHOWN: std::sync::atomic::AtomicUsize = std::sync::atomic::AtomicUsize::new(0);
    let prev = std::panic::take_hook();
    std::panic::set_hook(Box::new(move |info| {
        if info.payload().downcast_ref::<InjectedPanic>().is_some() {
            return;
        }
        if std::env::var_os("VERIF_PANIC_TRACE").is_some() {
            prev(info);
            return;
        }
        // one line for the first few foreign panics: if the process is aborted later (a panic inside a
        // panic cannot be caught) the driver can still say where the first panic came from
        if SHOWN.fetch_add(1, std::sync::atomic::Ordering::Relaxed) < 6 {
            let loc = info.location().map(|l| format!("{}:{}", l.file(), l.line())).unwrap_or_default();
            eprintln!("note: panic observed at {} :: {}", loc, panic_message(info.payload()));
        }
    }));
}

pub fn panic_message(p: &(dyn std::any::Any + Send)) -> String {
    if let Some(s) = p.downcast_ref::<&str>() {
        s.to_string()
    } else if let Some(s) = p.downcast_ref::<String>() {
        s.clone()
    } else if let Some(i) = p.downcast_ref::<InjectedPanic>() {
        format!("InjectedPanic({})", i.0)
    } else {
        "<non-string panic payload>".to_string()
    }
}

/// Runs `f(worker_index)` on `jobs` threads and collects the results.
pub fn parallel<T: Send + 'static>(
    jobs: usize,
    f: impl Fn(usize) -> T + Send + Sync + 'static,
) -> Vec<T> {
    let f = std::sync::Arc::new(f);
    let hs: Vec<_> = (0..jobs)
        .map(|w| {
            let f = f.clone();
            std::thread::Builder::new()
                .stack_size(8 << 20)
                .spawn(move || f(w))
                .unwrap()
        })
        .collect();
    hs.into_iter().map(|h| h.join().expect("worker panicked")).collect()
}


/// Polls the wrapped future under `catch_unwind`: a panic that comes out of an awaited library call
/// (instead of an error value) becomes `Err(message)` and does not take the history down.
pub struct CatchUnwind<F>(std::pin::Pin<Box<F>>);
pub fn catching<F: std::future::Future>(f: F) -> CatchUnwind<F> {
    CatchUnwind(Box::pin(f))
}
impl<F: std::future::Future> std::future::Future for CatchUnwind<F> {
    type Output = Result<F::Output, String>;
    fn poll(mut self: std::pin::Pin<&mut Self>, cx: &mut std::task::Context<'_>) -> std::task::Poll<Self::Output> {
        let inner = self.0.as_mut();
        match std::panic::catch_unwind(std::panic::AssertUnwindSafe(|| inner.poll(cx))) {
            Ok(std::task::Poll::Ready(v)) => std::task::Poll::Ready(Ok(v)),
            Ok(std::task::Poll::Pending) => std::task::Poll::Pending,
            Err(p) => std::task::Poll::Ready(Err(panic_message(&*p))),
        }
    }
}
