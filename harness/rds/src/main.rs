//! vh-redis: runtime monitors for deadpool-redis (C17, C19).

mod c17;
mod c19;
mod server;

use vh_common::{Args, Coverage, Finding, Json, Report, Violation};

pub struct Case {
    pub violations: Vec<Violation>,
    pub hash: u64,
    pub nontrivial: bool,
    pub events: u64,
    pub counters: std::collections::BTreeMap<String, u64>,
    pub desc: Json,
}

fn add(rep: &mut Report, o: c19::Out) {
    let cov = rep.engine(o.engine);
    cov.evaluations += o.cases;
    cov.events += o.cases;
    for (h, nt) in &o.hashes {
        let _ = cov.distinct.insert(*h);
        if *nt {
            let _ = cov.nontrivial.insert(*h);
        }
    }
    for (k, v) in &o.counters {
        cov.add(k, *v);
    }
    if let Some(s) = o.sample {
        cov.sample(s);
    }
    cov.inconclusive.extend(o.inconclusive);
    let engine = o.engine;
    let fs: Vec<Finding> = o.violations.into_iter().map(|(v, j)| Finding { sig: format!("C19/{}/{}", engine, v.oracle), v, replay: j }).collect();
    rep.add_findings(fs);
}

fn main() {
    vh_common::install_panic_hook();
    let args = Args::parse();
    vh_common::install_hang_watchdog(&args.prop);
    if args.prop == "replay" {
        let path = args.replay.clone().expect("replay file");
        let j = vh_common::parse_json(&std::fs::read_to_string(&path).expect("read")).expect("json");
        let engine = j.get("engine").and_then(Json::as_str).unwrap_or("").to_string();
        let seed = j.get("seed").and_then(Json::as_i64).unwrap_or(1) as u64;
        let idx = j.get("index").and_then(Json::as_i64).unwrap_or(0) as u64;
        if engine == "c17_ping_race" {
            let c = c17::ping_race(seed, idx);
            println!("{}", c.desc.render());
            if let Some(v) = c.violations.first() {
                println!("REPLAY: reproduced {} {} :: {}", v.prop, v.oracle, v.msg);
                std::process::exit(1);
            }
            println!("REPLAY: no violation reproduced");
            return;
        }
        if engine == "c17" {
            let c = c17::history(seed, idx);
            println!("{}", c.desc.render());
            if let Some(v) = c.violations.first() {
                println!("REPLAY: reproduced {} {} :: {}", v.prop, v.oracle, v.msg);
                std::process::exit(1);
            }
            println!("REPLAY: no violation reproduced");
        } else {
            println!("{}", j.render());
            println!("REPLAY: C19 cases are self-describing (case printed above); re-run ./vcheck run C19 quick with the same VERIF_SEED");
        }
        return;
    }
    let sc = |q: f64, t: f64| (args.tier.pick(q, t) * args.scale) as u64;
    let seed = args.seed;
    match args.prop.as_str() {
        "C17" => {
            let mut rep = Report::new(
                &args,
                "exploration",
                "cases = seeded random histories of gets / returns / WATCH / takes against a scripted RESP server on a loopback port that answers the pool's recycle PING with the right echo, a stale or wrong echo, an error, a disconnect or silence; distinct = hash of the operation log; non-trivial = a fault was scripted, WATCH state was left behind or a connection was taken",
            );
            let n = sc(800.0, 30_000.0);
            let jobs = args.jobs.max(1);
            let outs = vh_common::parallel(jobs, move |wk| {
                let mut cov = Coverage::default();
                let mut finds = Vec::new();
                let mut i = wk as u64;
                while i < n {
                    let _case = vh_common::CaseGuard::new(format!("c17 case {}", i));
                    let mut c = c17::history(seed, i);
                    // verdicts that rest on a generous wall-clock watchdog are only believed if they repeat
                    if c.violations.first().map(|v| ["get_hang", "harness", "capacity", "unusable_connection_issued"].contains(&v.oracle)).unwrap_or(false) {
                        let again = c17::history(seed, i);
                        if again.violations.first().map(|v| v.oracle) != c.violations.first().map(|v| v.oracle) {
                            cov.inconclusive.push(format!("watchdog verdict {} of case {} did not repeat", c.violations[0].oracle, i));
                            c = again;
                        }
                    }
                    cov.evaluations += 1;
                    cov.events += c.events;
                    let _ = cov.distinct.insert(c.hash);
                    if c.nontrivial {
                        let _ = cov.nontrivial.insert(c.hash);
                    }
                    let _ = cov.schedules.insert(c.hash);
                    for (k, v) in &c.counters {
                        cov.add(k, *v);
                    }
                    if !c.violations.is_empty() {
                        cov.bump("violating_cases");
                    }
                    if let Some(v) = c.violations.first() {
                        if finds.len() < 4 {
                            finds.push(Finding { v: v.clone(), sig: format!("C17/c17/{}", v.oracle), replay: c.desc.clone() });
                        }
                    } else if cov.samples.is_empty() && c.nontrivial {
                        cov.sample(c.desc);
                    }
                    i += jobs as u64;
                }
                (cov, finds)
            });
            for (cov, finds) in outs {
                rep.engine("c17").merge(cov);
                rep.add_findings(finds);
            }
            // recycles at full speed on several worker threads (one round at a time: each owns a runtime)
            let n_race = sc(12.0, 300.0).max(1);
            let mut cov = Coverage::default();
            let mut finds = Vec::new();
            for i in 0..n_race {
                let _case = vh_common::CaseGuard::new(format!("c17_ping_race case {}", i));
                let c = c17::ping_race(seed, i);
                cov.evaluations += 1;
                cov.events += c.events;
                let _ = cov.distinct.insert(c.hash);
                let _ = cov.nontrivial.insert(c.hash);
                let _ = cov.schedules.insert(c.hash);
                for (k, v) in &c.counters {
                    cov.add(k, *v);
                }
                if !c.violations.is_empty() {
                    cov.bump("violating_cases");
                }
                if let Some(v) = c.violations.first() {
                    if finds.len() < 4 {
                        finds.push(Finding { v: v.clone(), sig: format!("C17/c17_ping_race/{}", v.oracle), replay: c.desc.clone() });
                    }
                } else if cov.samples.is_empty() {
                    cov.sample(c.desc);
                }
            }
            rep.engine("c17_ping_race").merge(cov);
            rep.add_findings(finds);
            std::process::exit(rep.finish(&args));
        }
        "C19" => {
            let mut rep = Report::new(
                &args,
                "exploration",
                "cases = generated Config values of the three redis flavours (url / connection set or not, malformed and well-formed URLs), generated ConnectionInfo / RedisConnectionInfo / SentinelNodeConnectionInfo values converted both ways, generated PoolConfig values (durations over the full secs / nanos range) through typed (serde_json) and string-typed (config::Environment) sources, and behavioural scenarios against scripted RESP servers on loopback ports (which servers are contacted, which AUTH / HELLO / SELECT they receive); distinct = hash of the case; non-trivial = a URL, credentials or a timeout is involved",
            );
            add(&mut rep, c19::pure_rules(seed, sc(3000.0, 100_000.0)));
            add(&mut rep, c19::conversions(seed, sc(3000.0, 100_000.0)));
            add(&mut rep, c19::serialisation(seed, sc(3000.0, 100_000.0)));
            add(&mut rep, c19::behaviour(seed, sc(24.0, 400.0)));
            std::process::exit(rep.finish(&args));
        }
        p => {
            println!("BROKEN vh-redis does not serve {}", p);
            std::process::exit(3);
        }
    }
}
