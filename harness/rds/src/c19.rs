//! C19: redis / cluster / sentinel Config rules, lossless conversions and
//! serialisation round trips.

use std::collections::BTreeMap;
use std::panic::{catch_unwind, AssertUnwindSafe};
use std::path::PathBuf;
use std::time::Duration;

use deadpool::managed::{PoolConfig, QueueMode, Timeouts};
use deadpool_redis::{Config, ConfigError, ConnectionAddr, ConnectionInfo, ProtocolVersion, RedisConnectionInfo, Runtime};
use redis::IntoConnectionInfo;
use vh_common::{Json, Rng, Violation};

use crate::server::*;

pub struct Out {
    pub engine: &'static str,
    pub cases: u64,
    pub hashes: Vec<(u64, bool)>,
    pub violations: Vec<(Violation, Json)>,
    pub sample: Option<Json>,
    pub counters: BTreeMap<String, u64>,
    pub inconclusive: Vec<String>,
}
impl Out {
    fn new(engine: &'static str) -> Out {
        Out { engine, cases: 0, hashes: Vec::new(), violations: Vec::new(), sample: None, counters: BTreeMap::new(), inconclusive: Vec::new() }
    }
    fn case(&mut self, desc: &str, nontrivial: bool) {
        self.cases += 1;
        self.hashes.push((vh_common::fnv1a(desc.as_bytes()), nontrivial));
        if self.sample.is_none() && nontrivial {
            self.sample = Some(Json::from(desc));
        }
    }
    fn bad(&mut self, oracle: &'static str, msg: String, desc: &str) {
        *self.counters.entry("violating_cases".to_string()).or_insert(0) += 1;
        if self.violations.len() < 6 {
            self.violations.push((Violation { prop: "C19", oracle, msg }, Json::obj().with("engine", self.engine).with("case", desc)));
        }
    }
    fn bump(&mut self, k: &str) {
        *self.counters.entry(k.to_string()).or_insert(0) += 1;
    }
}

const BAD_URLS: &[&str] = &["", "not a url", "http://example.org", "redis://", "redis://h:notaport", "redis://h/notanumber", "redis://h:99999", "unix://", "redis+unix://", "rediss://", "redis://:@:/", "redis://h/1/2", "redis://h?protocol=resp9", "\u{0}", "redis://[::1", "redis://h\u{f6}st/\u{1F600}"];
const GOOD_URLS: &[&str] = &["redis://[::1]:6379/0", "redis://us%40er:p%3Aw@h/0", "REDIS://h", "redis://h/", "redis://h/0?protocol=resp2", "redis://127.0.0.1", "redis://127.0.0.1:7000/2", "redis://user:pw@localhost:6380/1", "redis://:pw@h", "redis://h?protocol=resp3", "unix:///tmp/redis.sock", "redis+unix:///tmp/r.sock?db=3&pass=x&user=u"];

/// The shapes a URL takes on its way through environment variables, shell quoting and config files:
/// wrapped in quotes or brackets, padded, cut short, a lone delimiter. Whether the result is well-formed
/// is decided by the redis crate's own parser, not here.
const WRAPS: &[(&str, &str)] = &[("\"", "\""), ("'", "'"), ("<", ">"), ("(", ")"), ("[", "]"), ("`", "`"), ("\"", ""), ("", "\""), (" ", ""), ("", " "), ("", "\n"), ("\t", "\t"), ("\"\"", "\"\"")];
const LONE: &[&str] = &["\"", "'", "\"\"", "''", "<", ">", "<>", "[", "]", "[]", "`", ":", "/", "//", "://", "?", "#", "@", "%", "\\", " ", "\n", "r", "redis", "redis:", "redis:/"];

fn mangled_url(rng: &mut Rng) -> String {
    let good = rng.pick(GOOD_URLS).to_string();
    match rng.below(4) {
        0 => {
            let (a, b) = *rng.pick(WRAPS);
            format!("{}{}{}", a, good, b)
        }
        1 => rng.pick(LONE).to_string(),
        2 => {
            let n = good.chars().count();
            let k = rng.usize_below(n.min(12) + 1);
            good.chars().take(k).collect()
        }
        _ => {
            let (a, b) = *rng.pick(WRAPS);
            let inner = rng.pick(LONE);
            format!("{}{}{}", a, inner, b)
        }
    }
}

// ------------------------------------------------------------------ pure rules

pub fn pure_rules(seed: u64, n: u64) -> Out {
    let mut o = Out::new("c19_rules");
    let mut rng = Rng::derive(seed, 0xC19, 1);
    let ci = |rng: &mut Rng| gen_conn_info(rng);
    for i in 0..n {
        let flavour = i % 3;
        let url_set = rng.chance(1, 2);
        let conn_set = rng.chance(1, 2);
        let url = if rng.chance(1, 4) { mangled_url(&mut rng) } else if rng.chance(1, 2) { rng.pick(BAD_URLS).to_string() } else { rng.pick(GOOD_URLS).to_string() };
        // cluster / sentinel take a list: mix well-formed and malformed entries
        let mut url_list: Vec<String> = vec![url.clone()];
        if flavour != 0 {
            for _ in 0..rng.usize_below(3) {
                let u = if rng.chance(1, 4) { rng.pick(BAD_URLS).to_string() } else { rng.pick(GOOD_URLS).to_string() };
                if rng.chance(1, 2) {
                    url_list.push(u);
                } else {
                    url_list.insert(0, u);
                }
            }
        }
        let url_ok = url_list.iter().all(|u| u.as_str().into_connection_info().is_ok());
        let url = url_list.join(" | ");
        let conn = ci(&mut rng);
        let desc = format!("flavour={} url={:?} connection={:?}", ["redis", "cluster", "sentinel"][flavour as usize], if url_set { Some(&url) } else { None }, if conn_set { Some(&conn) } else { None });
        o.case(&desc, url_set);
        let res: Result<Result<(), ConfigError>, _> = catch_unwind(AssertUnwindSafe(|| match flavour {
            0 => Config { url: if url_set { Some(url_list[0].clone()) } else { None }, connection: if conn_set { Some(conn.clone()) } else { None }, pool: None }.builder().map(|_| ()),
            1 => deadpool_redis::cluster::Config { urls: if url_set { Some(url_list.clone()) } else { None }, connections: if conn_set { Some(vec![conn.clone()]) } else { None }, pool: None, read_from_replicas: rng.chance(1, 2) }
                .builder()
                .map(|_| ()),
            _ => deadpool_redis::sentinel::Config {
                urls: if url_set { Some(url_list.clone()) } else { None },
                connections: if conn_set { Some(vec![conn.clone()]) } else { None },
                server_type: Default::default(),
                master_name: "m".into(),
                node_connection_info: None,
                pool: None,
            }
            .builder()
            .map(|_| ()),
        }));
        match res {
            Err(p) => o.bad("builder_panicked", format!("builder() panicked: {}", vh_common::panic_message(&*p)), &desc),
            Ok(r) => match (url_set, conn_set) {
                (true, true) => {
                    o.bump("both_set");
                    if !matches!(r, Err(ConfigError::UrlAndConnectionSpecified)) {
                        o.bad("both_not_rejected", format!("url and connection both set but builder() returned {:?}", r.map_err(|e| e.to_string())), &desc);
                    }
                }
                (true, false) => {
                    if url_ok {
                        o.bump("good_url");
                        if let Err(e) = r {
                            // the cluster / sentinel clients of the redis crate refuse unix sockets themselves
                            // (and lists whose entries disagree about credentials / protocol)
                            let backend_limit = flavour != 0 && (url.contains("unix") || url_list.len() > 1) && matches!(e, ConfigError::Redis(_));
                            if backend_limit {
                                o.bump("url_refused_by_backend");
                            } else {
                                o.bad("good_url_rejected", format!("a URL the redis crate accepts was rejected: {}", e), &desc);
                            }
                        }
                    } else {
                        o.bump("bad_url");
                        if !matches!(r, Err(ConfigError::Redis(_))) {
                            o.bad("bad_url_not_reported", format!("malformed URL {:?} but builder() returned {:?}", url, r.map_err(|e| e.to_string())), &desc);
                        }
                    }
                }
                (false, _) => {
                    o.bump("no_url");
                    match r {
                        // the backend may refuse a connection structure it cannot use (TLS without the
                        // feature, unix sockets for a cluster): reported as a Redis configuration error
                        Err(ConfigError::Redis(e)) => {
                            if !conn_set {
                                o.bad("default_config_rejected", format!("neither url nor connection set but builder() failed with {}", e), &desc);
                            } else {
                                o.bump("connection_refused_by_backend");
                            }
                        }
                        Err(e) => o.bad("valid_config_rejected", format!("builder() failed with {}", e), &desc),
                        Ok(()) => {}
                    }
                }
            },
        }
    }
    // a list that is present but empty names no server: a configuration error, not the default local server
    let empties: Vec<(&str, Box<dyn Fn() -> Result<(), ConfigError>>)> = vec![
        ("cluster urls=[]", Box::new(|| deadpool_redis::cluster::Config { urls: Some(vec![]), connections: None, pool: None, read_from_replicas: false }.builder().map(|_| ()))),
        ("cluster connections=[]", Box::new(|| deadpool_redis::cluster::Config { urls: None, connections: Some(vec![]), pool: None, read_from_replicas: false }.builder().map(|_| ()))),
        ("sentinel urls=[]", Box::new(|| deadpool_redis::sentinel::Config { urls: Some(vec![]), connections: None, server_type: Default::default(), master_name: "m".into(), node_connection_info: None, pool: None }.builder().map(|_| ()))),
        ("sentinel connections=[]", Box::new(|| deadpool_redis::sentinel::Config { urls: None, connections: Some(vec![]), server_type: Default::default(), master_name: "m".into(), node_connection_info: None, pool: None }.builder().map(|_| ()))),
    ];
    // every shape of the mangling tables once, for every flavour, as the only thing the Config names
    let mut shapes: Vec<String> = LONE.iter().map(|s| s.to_string()).collect();
    for (a, b) in WRAPS {
        for g in GOOD_URLS {
            shapes.push(format!("{}{}{}", a, g, b));
        }
        for l in LONE {
            shapes.push(format!("{}{}{}", a, l, b));
        }
    }
    for url in shapes {
        let url_ok = url.as_str().into_connection_info().is_ok();
        for flavour in 0..3u64 {
            let desc = format!("flavour={} url={:?} connection=None (shape sweep)", ["redis", "cluster", "sentinel"][flavour as usize], url);
            o.case(&desc, true);
            let u = url.clone();
            let res: Result<Result<(), ConfigError>, _> = catch_unwind(AssertUnwindSafe(move || match flavour {
                0 => Config { url: Some(u), connection: None, pool: None }.builder().map(|_| ()),
                1 => deadpool_redis::cluster::Config { urls: Some(vec![u]), connections: None, pool: None, read_from_replicas: false }.builder().map(|_| ()),
                _ => deadpool_redis::sentinel::Config { urls: Some(vec![u]), connections: None, server_type: Default::default(), master_name: "m".into(), node_connection_info: None, pool: None }.builder().map(|_| ()),
            }));
            match res {
                Err(p) => o.bad("builder_panicked", format!("builder() panicked: {}", vh_common::panic_message(&*p)), &desc),
                Ok(r) => {
                    if url_ok {
                        o.bump("good_url");
                        if let Err(e) = r {
                            if flavour != 0 && url.contains("unix") && matches!(e, ConfigError::Redis(_)) {
                                o.bump("url_refused_by_backend");
                            } else {
                                o.bad("good_url_rejected", format!("a URL the redis crate accepts was rejected: {}", e), &desc);
                            }
                        }
                    } else {
                        o.bump("bad_url");
                        if !matches!(r, Err(ConfigError::Redis(_))) {
                            o.bad("bad_url_not_reported", format!("malformed URL {:?} but builder() returned {:?}", url, r.map_err(|e| e.to_string())), &desc);
                        }
                    }
                }
            }
        }
    }
    for (name, f) in empties {
        o.case(name, true);
        match catch_unwind(AssertUnwindSafe(|| f())) {
            Err(p) => o.bad("builder_panicked", format!("builder() panicked: {}", vh_common::panic_message(&*p)), name),
            Ok(Ok(())) => o.bad("empty_list_accepted", format!("{}: builder() succeeded although no server is named", name), name),
            Ok(Err(_)) => o.bump("empty_list_refused"),
        }
    }
    o
}

fn gen_conn_info(rng: &mut Rng) -> ConnectionInfo {
    let long = format!("{}\u{1F600}{}", "a".repeat(62), "z".repeat(200));
    let texts: [&str; 18] = ["", "h", "127.0.0.1", "h\u{f6}st", "with space", "a:b", "/path", "::1", "p%40ss", "\u{0}", "null", long.as_str(), "[::1]", "[fe80::1%eth0]", "[", "]", "[]", "[h]"];
    let addr = match rng.below(3) {
        0 => ConnectionAddr::Tcp(rng.pick(&texts).to_string(), *rng.pick(&[0u16, 1, 6379, 65535])),
        1 => ConnectionAddr::TcpTls { host: rng.pick(&texts).to_string(), port: *rng.pick(&[0u16, 6380, 65535]), insecure: rng.chance(1, 2) },
        _ => ConnectionAddr::Unix(PathBuf::from(*rng.pick(&["", "/tmp/r.sock", "rel/p\u{e4}th", "/with space"]))),
    };
    let opt_text = |rng: &mut Rng| if rng.chance(1, 2) { Some(rng.pick(&texts).to_string()) } else { None };
    ConnectionInfo {
        addr,
        redis: RedisConnectionInfo {
            db: *rng.pick(&[0i64, 1, 15, -1, i64::MAX, i64::MIN]),
            username: opt_text(rng),
            password: opt_text(rng),
            protocol: if rng.chance(1, 2) { ProtocolVersion::RESP2 } else { ProtocolVersion::RESP3 },
        },
    }
}

// ------------------------------------------------------------------ conversions

pub fn conversions(seed: u64, n: u64) -> Out {
    let mut o = Out::new("c19_conversions");
    let mut rng = Rng::derive(seed, 0xC19, 2);
    for _ in 0..n {
        let d = gen_conn_info(&mut rng);
        let desc = format!("{:?}", d);
        o.case(&desc, true);
        let r: redis::ConnectionInfo = d.clone().into();
        // field by field in the redis crate's type
        let addr_ok = match (&d.addr, &r.addr) {
            (ConnectionAddr::Tcp(h, p), redis::ConnectionAddr::Tcp(h2, p2)) => h == h2 && p == p2,
            (ConnectionAddr::TcpTls { host, port, insecure }, redis::ConnectionAddr::TcpTls { host: h2, port: p2, insecure: i2, .. }) => host == h2 && port == p2 && insecure == i2,
            (ConnectionAddr::Unix(p), redis::ConnectionAddr::Unix(p2)) => p == p2,
            _ => false,
        };
        let proto_ok = matches!((d.redis.protocol, r.redis.protocol), (ProtocolVersion::RESP2, redis::ProtocolVersion::RESP2) | (ProtocolVersion::RESP3, redis::ProtocolVersion::RESP3));
        if !addr_ok || d.redis.db != r.redis.db || d.redis.username != r.redis.username || d.redis.password != r.redis.password || !proto_ok {
            o.bad("conversion_to_redis_lossy", format!("{:?} became {:?}", d, r), &desc);
        }
        let back: ConnectionInfo = r.clone().into();
        if format!("{:?}", back) != desc {
            o.bad("conversion_round_trip", format!("{:?} -> redis -> {:?}", d, back), &desc);
        }
        // IntoConnectionInfo must be the same conversion
        match d.clone().into_connection_info() {
            Ok(r2) => {
                if format!("{:?}", r2) != format!("{:?}", r) {
                    o.bad("into_connection_info_differs", format!("{:?} vs {:?}", r2, r), &desc);
                }
            }
            Err(e) => o.bad("into_connection_info_failed", format!("{}", e), &desc),
        }
        // sentinel node connection info
        use deadpool_redis::sentinel::{SentinelNodeConnectionInfo, TlsMode};
        let sn = SentinelNodeConnectionInfo {
            tls_mode: match rng.below(3) {
                0 => None,
                1 => Some(TlsMode::Secure),
                _ => Some(TlsMode::Insecure),
            },
            redis_connection_info: if rng.chance(1, 2) { Some(d.redis.clone()) } else { None },
        };
        let rs: redis::sentinel::SentinelNodeConnectionInfo = sn.clone().into();
        let tls_ok = match (&sn.tls_mode, &rs.tls_mode) {
            (None, None) => true,
            (Some(TlsMode::Secure), Some(redis::TlsMode::Secure)) => true,
            (Some(TlsMode::Insecure), Some(redis::TlsMode::Insecure)) => true,
            _ => false,
        };
        let rci_ok = match (&sn.redis_connection_info, &rs.redis_connection_info) {
            (None, None) => true,
            (Some(a), Some(b)) => a.db == b.db && a.username == b.username && a.password == b.password,
            _ => false,
        };
        if !tls_ok || !rci_ok {
            o.bad("sentinel_node_conversion_lossy", format!("{:?} became tls={:?}", sn, rs.tls_mode.is_some()), &desc);
        }
        let sback: SentinelNodeConnectionInfo = rs.into();
        if format!("{:?}", sback) != format!("{:?}", sn) {
            o.bad("sentinel_node_round_trip", format!("{:?} -> redis -> {:?}", sn, sback), &desc);
        }
    }
    o
}

// ------------------------------------------------------------------ serialisation

fn gen_pool_config(rng: &mut Rng) -> PoolConfig {
    let dur = |rng: &mut Rng| {
        let secs = *rng.pick(&[0u64, 1, 59, 3600, u32::MAX as u64, u32::MAX as u64 + 1, u64::MAX / 2, u64::MAX]);
        let nanos = *rng.pick(&[0u32, 1, 500_000_000, 999_999_999]);
        Duration::new(secs, nanos)
    };
    let od = |rng: &mut Rng| if rng.chance(2, 3) { Some(dur(rng)) } else { None };
    let queue_mode = if rng.chance(1, 2) { QueueMode::Fifo } else { QueueMode::Lifo };
    if rng.chance(1, 5) {
        // the default configuration, changed in at most one place
        let mut p = PoolConfig { queue_mode, ..Default::default() };
        match rng.below(4) {
            0 => p.timeouts.wait = Some(dur(rng)),
            1 => p.timeouts.recycle = Some(Duration::ZERO),
            _ => {}
        }
        return p;
    }
    PoolConfig {
        max_size: *rng.pick(&[0usize, 1, 16, usize::MAX]),
        timeouts: Timeouts { wait: od(rng), create: od(rng), recycle: od(rng) },
        queue_mode,
    }
}

pub fn serialisation(seed: u64, n: u64) -> Out {
    let mut o = Out::new("c19_serde");
    let mut rng = Rng::derive(seed, 0xC19, 3);
    for _ in 0..n {
        let pc = gen_pool_config(&mut rng);
        let desc = format!("{:?}", pc);
        o.case(&desc, pc.timeouts.wait.is_some() || pc.timeouts.create.is_some());
        // typed source
        match serde_json::to_string(&pc) {
            Err(e) => o.bad("serialise_failed", format!("{}", e), &desc),
            Ok(s) => match serde_json::from_str::<PoolConfig>(&s) {
                Err(e) => o.bad("deserialise_failed", format!("{} for {}", e, s), &desc),
                Ok(back) => {
                    if format!("{:?}", back) != desc {
                        o.bad("round_trip_changed", format!("{} -> {} -> {:?}", desc, s, back), &desc);
                    }
                }
            },
        }
        // string-typed (environment style) source
        let mut env = std::collections::HashMap::new();
        let _ = env.insert("MAX_SIZE".to_string(), pc.max_size.to_string());
        let _ = env.insert("QUEUE_MODE".to_string(), format!("{:?}", pc.queue_mode));
        for (name, t) in [("WAIT", pc.timeouts.wait), ("CREATE", pc.timeouts.create), ("RECYCLE", pc.timeouts.recycle)] {
            if let Some(d) = t {
                let _ = env.insert(format!("TIMEOUTS__{}__SECS", name), d.as_secs().to_string());
                let _ = env.insert(format!("TIMEOUTS__{}__NANOS", name), d.subsec_nanos().to_string());
            }
        }
        let built = config::Config::builder().add_source(config::Environment::default().separator("__").source(Some(env.clone()))).build();
        match built.and_then(|c| c.try_deserialize::<PoolConfig>()) {
            Ok(back) => {
                o.bump("env_deserialised");
                if format!("{:?}", back) != desc {
                    o.bad("env_round_trip_changed", format!("{} -> {:?} -> {:?}", desc, env, back), &desc);
                }
            }
            Err(_) => o.bump("env_refused"),
        }
    }
    // ---- omitted sections take the documented defaults
    let cases: Vec<(&str, Box<dyn Fn() -> Result<String, String>>, &str)> = vec![
        ("pool config without timeouts and queue_mode", Box::new(|| serde_json::from_str::<PoolConfig>(r#"{"max_size": 5}"#).map(|p| format!("{:?}", p)).map_err(|e| e.to_string())), "PoolConfig { max_size: 5, timeouts: Timeouts { wait: None, create: None, recycle: None }, queue_mode: Fifo }"),
        (
            "timeouts section without wait",
            Box::new(|| serde_json::from_str::<PoolConfig>(r#"{"max_size": 5, "timeouts": {"create": {"secs": 1, "nanos": 0}}}"#).map(|p| format!("{:?}", p.timeouts)).map_err(|e| e.to_string())),
            "Timeouts { wait: None, create: Some(1s), recycle: None }",
        ),
        (
            "timeouts section without create and recycle",
            Box::new(|| serde_json::from_str::<PoolConfig>(r#"{"max_size": 5, "timeouts": {"wait": {"secs": 2, "nanos": 0}}}"#).map(|p| format!("{:?}", p.timeouts)).map_err(|e| e.to_string())),
            "Timeouts { wait: Some(2s), create: None, recycle: None }",
        ),
        (
            "empty timeouts section",
            Box::new(|| serde_json::from_str::<Timeouts>("{}").map(|p| format!("{:?}", p)).map_err(|e| e.to_string())),
            "Timeouts { wait: None, create: None, recycle: None }",
        ),
        (
            "timeouts with nulls",
            Box::new(|| serde_json::from_str::<Timeouts>(r#"{"wait": null, "create": null, "recycle": null}"#).map(|p| format!("{:?}", p)).map_err(|e| e.to_string())),
            "Timeouts { wait: None, create: None, recycle: None }",
        ),
        (
            "redis config without pool",
            Box::new(|| serde_json::from_str::<Config>(r#"{"url": "redis://h"}"#).map(|c| format!("{:?} pool={:?}", c.url, c.pool.is_none())).map_err(|e| e.to_string())),
            "Some(\"redis://h\") pool=true",
        ),
        (
            "cluster config without read_from_replicas",
            Box::new(|| serde_json::from_str::<deadpool_redis::cluster::Config>(r#"{"urls": ["redis://h"]}"#).map(|c| format!("{} {}", c.read_from_replicas, c.pool.is_none())).map_err(|e| e.to_string())),
            "false true",
        ),
        (
            "sentinel config without server_type and master_name",
            Box::new(|| serde_json::from_str::<deadpool_redis::sentinel::Config>(r#"{"urls": ["redis://h"]}"#).map(|c| format!("{:?} {} {}", c.server_type, c.master_name, c.pool.is_none())).map_err(|e| e.to_string())),
            "Master mymaster true",
        ),
    ];
    for (name, f, want) in cases {
        o.case(name, true);
        match f() {
            Ok(got) if got == want => {}
            other => o.bad("default_for_omitted_section", format!("{}: got {:?}, expected {:?}", name, other, want), name),
        }
    }
    // default pool config when the section is missing
    let c = serde_json::from_str::<Config>(r#"{"url": "redis://h"}"#).unwrap();
    if c.get_pool_config().max_size != PoolConfig::default().max_size {
        o.bad("default_for_omitted_section", "missing pool section does not give the default pool config".into(), "redis config without pool");
    }
    // redis Config round trip
    let mut rng2 = Rng::derive(seed, 0xC19, 4);
    for _ in 0..(n / 4).max(10) {
        let c = Config { url: if rng2.chance(1, 2) { Some(rng2.pick(GOOD_URLS).to_string()) } else { None }, connection: if rng2.chance(1, 2) { Some(gen_conn_info(&mut rng2)) } else { None }, pool: if rng2.chance(1, 2) { Some(gen_pool_config(&mut rng2)) } else { None } };
        let desc = format!("{:?}", c);
        o.case(&desc, c.connection.is_some());
        match serde_json::to_string(&c).map_err(|e| e.to_string()).and_then(|s| serde_json::from_str::<Config>(&s).map_err(|e| format!("{} for {}", e, s))) {
            Ok(back) => {
                if format!("{:?}", back) != desc {
                    o.bad("config_round_trip_changed", format!("{} -> {:?}", desc, back), &desc);
                }
            }
            Err(e) => o.bad("config_round_trip_failed", e, &desc),
        }
        // the cluster and sentinel flavours of the same thing
        let cc = deadpool_redis::cluster::Config {
            urls: if rng2.chance(1, 2) { Some(vec![rng2.pick(GOOD_URLS).to_string(), rng2.pick(GOOD_URLS).to_string()]) } else { None },
            connections: if rng2.chance(1, 2) { Some(vec![gen_conn_info(&mut rng2)]) } else { None },
            pool: if rng2.chance(2, 3) { Some(gen_pool_config(&mut rng2)) } else { None },
            read_from_replicas: rng2.chance(1, 2),
        };
        let desc = format!("{:?}", cc);
        o.case(&desc, cc.pool.is_some());
        match serde_json::to_string(&cc).map_err(|e| e.to_string()).and_then(|s| serde_json::from_str::<deadpool_redis::cluster::Config>(&s).map_err(|e| format!("{} for {}", e, s))) {
            Ok(back) => {
                if format!("{:?}", back) != desc {
                    o.bad("config_round_trip_changed", format!("{} -> {:?}", desc, back), &desc);
                }
            }
            Err(e) => o.bad("config_round_trip_failed", e, &desc),
        }
        let sc = deadpool_redis::sentinel::Config {
            urls: if rng2.chance(1, 2) { Some(vec![rng2.pick(GOOD_URLS).to_string()]) } else { None },
            connections: if rng2.chance(1, 2) { Some(vec![gen_conn_info(&mut rng2)]) } else { None },
            server_type: Default::default(),
            master_name: rng2.pick(&["mymaster", "", "m\u{f6}"]).to_string(),
            node_connection_info: None,
            pool: if rng2.chance(2, 3) { Some(gen_pool_config(&mut rng2)) } else { None },
        };
        let desc = format!("{:?}", sc);
        o.case(&desc, sc.pool.is_some());
        match serde_json::to_string(&sc).map_err(|e| e.to_string()).and_then(|s| serde_json::from_str::<deadpool_redis::sentinel::Config>(&s).map_err(|e| format!("{} for {}", e, s))) {
            Ok(back) => {
                if format!("{:?}", back) != desc {
                    o.bad("config_round_trip_changed", format!("{} -> {:?}", desc, back), &desc);
                }
            }
            Err(e) => o.bad("config_round_trip_failed", e, &desc),
        }
    }
    o
}

// ------------------------------------------------------------------ behaviour: which servers are used

async fn one_get_standalone(cfg: &Config) -> Result<(), String> {
    let pool = cfg.create_pool(Some(Runtime::Tokio1)).map_err(|e| format!("create_pool: {}", e))?;
    let c = tokio::time::timeout(Duration::from_secs(5), pool.get()).await.map_err(|_| "get hangs".to_string())?.map_err(|e| format!("get: {:?}", e))?;
    drop(c);
    Ok(())
}

pub fn behaviour(seed: u64, n: u64) -> Out {
    let mut o = Out::new("c19_servers");
    let rt = tokio::runtime::Builder::new_current_thread().enable_all().build().expect("rt");
    rt.block_on(async {
        let mut rng = Rng::derive(seed, 0xC19, 5);
        for i in 0..n {
            let (named, port, h1) = start(0).await.expect("listener");
            let (decoy, dport, h2) = start(0).await.expect("listener");
            let db = *rng.pick(&[0i64, 1, 7]);
            let user = if rng.chance(1, 2) { Some("usr".to_string()) } else { None };
            let pass = if user.is_some() || rng.chance(1, 2) { Some("p-w".to_string()) } else { None };
            let resp3 = rng.chance(1, 2);
            let via_url = rng.chance(1, 2);
            let cfg = if via_url {
                let auth = match (&user, &pass) {
                    (Some(u), Some(p)) => format!("{}:{}@", u, p),
                    (None, Some(p)) => format!(":{}@", p),
                    _ => String::new(),
                };
                Config::from_url(format!("redis://{}127.0.0.1:{}/{}{}", auth, port, db, if resp3 { "?protocol=resp3" } else { "" }))
            } else {
                Config::from_connection_info(ConnectionInfo {
                    addr: ConnectionAddr::Tcp("127.0.0.1".into(), port),
                    redis: RedisConnectionInfo { db, username: user.clone(), password: pass.clone(), protocol: if resp3 { ProtocolVersion::RESP3 } else { ProtocolVersion::RESP2 } },
                })
            };
            let desc = format!("standalone via_url={} db={} user={:?} pass={:?} resp3={} (case {})", via_url, db, user, pass, resp3, i);
            o.case(&desc, true);
            match one_get_standalone(&cfg).await {
                Err(e) => o.bad("named_server_not_usable", format!("{}", e), &desc),
                Ok(()) => {
                    if named.n_conns() == 0 {
                        o.bad("named_server_not_contacted", format!("server on port {} was never contacted", port), &desc);
                    }
                    if decoy.n_conns() != 0 {
                        o.bad("other_server_contacted", format!("server on port {} was contacted although it is not named", dport), &desc);
                    }
                    let cmds = named.all_commands();
                    let flat: Vec<String> = cmds.iter().map(|c| c.2.join(" ")).collect();
                    let saw_select = cmds.iter().any(|c| c.2[0] == "SELECT" && c.2.get(1) == Some(&db.to_string()));
                    let saw_any_select = cmds.iter().any(|c| c.2[0] == "SELECT");
                    if (db != 0) != saw_select || (db == 0 && saw_any_select) {
                        o.bad("database_not_in_effect", format!("db={} but the server saw {:?}", db, flat), &desc);
                    }
                    let saw_hello3 = cmds.iter().any(|c| c.2[0] == "HELLO" && c.2.get(1).map(|s| s == "3").unwrap_or(false));
                    if saw_hello3 != resp3 {
                        o.bad("protocol_not_in_effect", format!("resp3={} but the server saw {:?}", resp3, flat), &desc);
                    }
                    let auth_cmds: Vec<&Vec<String>> = cmds.iter().map(|c| &c.2).filter(|c| c[0] == "AUTH" || (c[0] == "HELLO" && c.iter().any(|a| a.to_uppercase() == "AUTH"))).collect();
                    match &pass {
                        None => {
                            if !auth_cmds.is_empty() {
                                o.bad("credentials_invented", format!("no credentials configured but the server saw {:?}", flat), &desc);
                            }
                        }
                        Some(p) => {
                            let ok = auth_cmds.iter().any(|c| c.contains(p) && user.as_ref().map(|u| c.contains(u)).unwrap_or(true));
                            if !ok {
                                o.bad("credentials_not_in_effect", format!("user={:?} pass={:?} but the server saw {:?}", user, pass, flat), &desc);
                            }
                        }
                    }
                }
            }
            h1.abort();
            h2.abort();
        }
        // ---- neither url nor connection: the default local server
        match start(6379).await {
            Err(e) => o.inconclusive.push(format!("port 6379 cannot be bound ({}): the 'default local server' case of the standalone config was not observed", e)),
            Ok((def, _, h)) => {
                let cfg = Config { url: None, connection: None, pool: None };
                o.case("standalone with neither url nor connection", true);
                match one_get_standalone(&cfg).await {
                    Ok(()) if def.n_conns() > 0 => o.bump("default_server_contacted"),
                    other => o.bad("default_server_not_used", format!("{:?}; default server saw {} connections", other, def.n_conns()), "standalone with neither url nor connection"),
                }
                // cluster flavour, same default
                let before = def.n_conns();
                let ccfg = deadpool_redis::cluster::Config { urls: None, connections: None, pool: None, read_from_replicas: false };
                o.case("cluster with neither urls nor connections", true);
                match ccfg.create_pool(Some(Runtime::Tokio1)) {
                    Err(e) => o.bad("default_server_not_used", format!("cluster create_pool failed: {}", e), "cluster with neither urls nor connections"),
                    Ok(pool) => {
                        let r = tokio::time::timeout(Duration::from_secs(5), pool.get()).await;
                        if def.n_conns() == before {
                            o.bad("default_server_not_used", format!("cluster pool with neither urls nor connections did not contact 127.0.0.1:6379 (get: {:?})", r.map(|x| x.map(|_| ()).map_err(|e| format!("{:?}", e)))), "cluster with neither urls nor connections");
                        } else {
                            o.bump("cluster_default_server_contacted");
                        }
                    }
                }
                // sentinel flavour: a Config naming neither goes to the same default local server (the Config
                // that `Default` builds names its sentinel 127.0.0.1:26379 explicitly and is a different case);
                // a listener on 26379 tells "went elsewhere" from "went nowhere"
                let before = def.n_conns();
                let other = start(26379).await.ok();
                let scfg = deadpool_redis::sentinel::Config { urls: None, connections: None, server_type: Default::default(), master_name: "mymaster".into(), node_connection_info: None, pool: None };
                o.case("sentinel with neither urls nor connections", true);
                match scfg.create_pool(Some(Runtime::Tokio1)) {
                    Err(e) => o.bad("default_server_not_used", format!("sentinel create_pool failed: {}", e), "sentinel with neither urls nor connections"),
                    Ok(pool) => {
                        let r = tokio::time::timeout(Duration::from_secs(5), pool.get()).await;
                        let elsewhere = other.as_ref().map(|x| x.0.n_conns()).unwrap_or(0);
                        if def.n_conns() == before {
                            o.bad(
                                "default_server_not_used",
                                format!("sentinel pool with neither urls nor connections did not contact 127.0.0.1:6379 ({} connections seen on 127.0.0.1:26379; get: {:?})", elsewhere, r.map(|x| x.map(|_| ()).map_err(|e| format!("{:?}", e)))),
                                "sentinel with neither urls nor connections",
                            );
                        } else if elsewhere > 0 {
                            o.bad("other_server_contacted", format!("sentinel pool with neither urls nor connections also contacted 127.0.0.1:26379 ({} connections)", elsewhere), "sentinel with neither urls nor connections");
                        } else {
                            o.bump("sentinel_default_server_contacted");
                        }
                    }
                }
                if let Some((_, _, h2)) = other {
                    h2.abort();
                }
                h.abort();
            }
        }
        // ---- cluster: exactly the named nodes
        for (via_url, resp3, auth) in [(true, false, false), (false, false, false), (true, true, true), (false, true, true), (true, true, false), (false, true, false), (true, false, true), (false, false, true)] {
            let (a, pa, h1) = start(0).await.expect("listener");
            let (b, pb, h2) = start(0).await.expect("listener");
            let (decoy, _, h3) = start(0).await.expect("listener");
            let node_info = RedisConnectionInfo {
                db: 0,
                username: if auth { Some("alice".into()) } else { None },
                password: if auth { Some("s3cret".into()) } else { None },
                protocol: if resp3 { ProtocolVersion::RESP3 } else { ProtocolVersion::RESP2 },
            };
            let cfg = if via_url {
                let cred = if auth { "alice:s3cret@" } else { "" };
                let q = if resp3 { "?protocol=resp3" } else { "" };
                deadpool_redis::cluster::Config::from_urls(vec![format!("redis://{}127.0.0.1:{}{}", cred, pa, q), format!("redis://{}127.0.0.1:{}{}", cred, pb, q)])
            } else {
                deadpool_redis::cluster::Config {
                    urls: None,
                    connections: Some(vec![
                        ConnectionInfo { addr: ConnectionAddr::Tcp("127.0.0.1".into(), pa), redis: node_info.clone() },
                        ConnectionInfo { addr: ConnectionAddr::Tcp("127.0.0.1".into(), pb), redis: node_info.clone() },
                    ]),
                    pool: None,
                    read_from_replicas: false,
                }
            };
            let desc = format!("cluster via_url={} resp3={} auth={} nodes={},{}", via_url, resp3, auth, pa, pb);
            o.case(&desc, true);
            match cfg.create_pool(Some(Runtime::Tokio1)) {
                Err(e) => o.bad("named_server_not_usable", format!("cluster create_pool: {}", e), &desc),
                Ok(pool) => {
                    let r = tokio::time::timeout(Duration::from_secs(5), pool.get()).await;
                    if a.n_conns() == 0 || b.n_conns() == 0 {
                        o.bad("named_server_not_contacted", format!("cluster nodes contacted: {} / {} connections (get: {:?})", a.n_conns(), b.n_conns(), r.map(|x| x.map(|_| ()).map_err(|e| format!("{:?}", e)))), &desc);
                    }
                    if decoy.n_conns() != 0 {
                        o.bad("other_server_contacted", "a node that is not named was contacted".into(), &desc);
                    }
                    // what the named nodes were told: protocol and credentials of the description
                    for (name, node) in [("first", &a), ("second", &b)] {
                        if node.n_conns() == 0 {
                            continue;
                        }
                        let flat: Vec<String> = node.all_commands().iter().map(|c| c.2.join(" ")).collect();
                        let hello3 = flat.iter().any(|c| c.starts_with("HELLO 3"));
                        if hello3 != resp3 {
                            o.bad("protocol_not_in_effect", format!("resp3={} but the {} node saw {:?}", resp3, name, flat), &desc);
                        }
                        let authed = flat.iter().any(|c| (c.starts_with("AUTH") || c.starts_with("HELLO")) && c.contains("s3cret") && c.contains("alice"));
                        let any_auth = flat.iter().any(|c| c.starts_with("AUTH") || c.to_uppercase().contains(" AUTH "));
                        if auth && !authed {
                            o.bad("credentials_not_in_effect", format!("user and password configured but the {} node saw {:?}", name, flat), &desc);
                        }
                        if !auth && any_auth {
                            o.bad("credentials_invented", format!("no credentials configured but the {} node saw {:?}", name, flat), &desc);
                        }
                    }
                }
            }
            h1.abort();
            h2.abort();
            h3.abort();
        }
        // ---- sentinel: the named sentinel is asked for the configured master name, then that master is used
        for (via_url, resp3, auth) in [(true, false, false), (false, false, false), (true, true, true), (false, true, true), (false, true, false), (true, true, false)] {
            let (sent, ps, h1) = start(0).await.expect("listener");
            let (master, pm, h2) = start(0).await.expect("listener");
            let (decoy, _, h3) = start(0).await.expect("listener");
            *sent.sentinel_master.lock().unwrap() = Some(("svc-x".into(), "127.0.0.1".into(), pm));
            let cfg = if via_url {
                let cred = if auth { "alice:s3cret@" } else { "" };
                let q = if resp3 { "?protocol=resp3" } else { "" };
                deadpool_redis::sentinel::Config::from_urls(vec![format!("redis://{}127.0.0.1:{}{}", cred, ps, q)], "svc-x".to_string(), deadpool_redis::sentinel::SentinelServerType::Master)
            } else {
                deadpool_redis::sentinel::Config {
                    urls: None,
                    connections: Some(vec![ConnectionInfo {
                        addr: ConnectionAddr::Tcp("127.0.0.1".into(), ps),
                        redis: RedisConnectionInfo {
                            db: 0,
                            username: if auth { Some("alice".into()) } else { None },
                            password: if auth { Some("s3cret".into()) } else { None },
                            protocol: if resp3 { ProtocolVersion::RESP3 } else { ProtocolVersion::RESP2 },
                        },
                    }]),
                    server_type: deadpool_redis::sentinel::SentinelServerType::Master,
                    master_name: "svc-x".into(),
                    node_connection_info: Some(deadpool_redis::sentinel::SentinelNodeConnectionInfo { tls_mode: None, redis_connection_info: Some(RedisConnectionInfo { db: 0, username: None, password: Some("node-pw".into()), protocol: ProtocolVersion::RESP2 }) }),
                    pool: None,
                }
            };
            let desc = format!("sentinel via_url={} resp3={} auth={} sentinel={} master={}", via_url, resp3, auth, ps, pm);
            o.case(&desc, true);
            match cfg.create_pool(Some(Runtime::Tokio1)) {
                Err(e) => o.bad("named_server_not_usable", format!("sentinel create_pool: {}", e), &desc),
                Ok(pool) => {
                    let r = tokio::time::timeout(Duration::from_secs(5), pool.get()).await;
                    let rs = r.map(|x| x.map(|_| ()).map_err(|e| format!("{:?}", e)));
                    if sent.n_conns() == 0 {
                        o.bad("named_server_not_contacted", format!("the named sentinel was never contacted (get: {:?})", rs), &desc);
                    } else {
                        let flat: Vec<String> = sent.all_commands().iter().map(|c| c.2.join(" ")).collect();
                        let hello3 = flat.iter().any(|c| c.starts_with("HELLO 3"));
                        if hello3 != resp3 {
                            o.bad("protocol_not_in_effect", format!("resp3={} but the named sentinel saw {:?}", resp3, flat), &desc);
                        }
                        let authed = flat.iter().any(|c| (c.starts_with("AUTH") || c.starts_with("HELLO")) && c.contains("s3cret") && c.contains("alice"));
                        if auth && !authed {
                            o.bad("credentials_not_in_effect", format!("user and password configured but the named sentinel saw {:?}", flat), &desc);
                        }
                        let asked: Vec<String> = sent.all_commands().iter().filter(|c| c.2[0] == "SENTINEL").map(|c| c.2.join(" ")).collect();
                        if master.n_conns() == 0 {
                            o.inconclusive.push(format!("sentinel scenario: the scripted sentinel was asked {:?} but the client did not go on to the master (get: {:?}); master-side clauses not observed", asked, rs));
                        } else {
                            o.bump("sentinel_master_contacted");
                            if !via_url {
                                let flat: Vec<String> = master.all_commands().iter().map(|c| c.2.join(" ")).collect();
                                if !flat.iter().any(|c| c.starts_with("AUTH") && c.contains("node-pw")) {
                                    o.bad("credentials_not_in_effect", format!("node_connection_info password not used on the master: {:?}", flat), &desc);
                                }
                            }
                        }
                    }
                    if decoy.n_conns() != 0 {
                        o.bad("other_server_contacted", "a server that is not named was contacted".into(), &desc);
                    }
                }
            }
            h1.abort();
            h2.abort();
            h3.abort();
        }
    });
    o
}
