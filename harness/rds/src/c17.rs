//! C17: the standalone redis pool hands out only clean, synchronised connections.

use std::collections::{BTreeMap, HashMap, HashSet};
use std::sync::atomic::Ordering;
use std::time::Duration;

use deadpool_redis::{Config, Connection, Runtime};
use vh_common::{Hasher, Json, Rng, Violation};

use crate::server::*;
use crate::Case;

async fn ident<C: redis::aio::ConnectionLike>(c: &mut C) -> Result<usize, String> {
    match tokio::time::timeout(Duration::from_secs(10), redis::cmd("VHID").query_async::<i64>(c)).await {
        Err(_) => Err("timeout".into()),
        Ok(Err(e)) => Err(format!("{}", e)),
        Ok(Ok(k)) => Ok(k as usize),
    }
}

pub fn history(seed: u64, idx: u64) -> Case {
    let mut rng = Rng::derive(seed, 0xC17, idx);
    let max_size = rng.range(1, 3) as usize;
    let n_ops = rng.range(5, 35) as usize;
    let lifo = rng.chance(1, 2);
    let via_section = rng.chance(1, 2);
    let config_desc = format!("max_size={} lifo={} via_pool_section={}", max_size, lifo, via_section);
    let rt = tokio::runtime::Builder::new_current_thread().enable_all().build().expect("rt");
    let mut viol: Vec<Violation> = Vec::new();
    let mut log: Vec<String> = Vec::new();
    let mut counters: BTreeMap<String, u64> = BTreeMap::new();
    let mut nontrivial = false;
    rt.block_on(async {
        let (server, sock, acc) = start_unix().await.expect("listener");
        let mut cfg = Config::from_url(format!("unix://{}", sock.0.display()));
        let qm = if lifo { deadpool::managed::QueueMode::Lifo } else { deadpool::managed::QueueMode::Fifo };
        // the pool's settings reach it either through the builder's setters or through the pool section of
        // the Config (the way a deployment configures it); only the recycle timeout is set, so a missing
        // reply is noticed through it and through nothing else
        let pool = if via_section {
            cfg.pool = Some(deadpool::managed::PoolConfig { max_size, timeouts: deadpool::managed::Timeouts { wait: None, create: None, recycle: Some(Duration::from_millis(60)) }, queue_mode: qm });
            cfg.builder().expect("builder").runtime(Runtime::Tokio1).build().expect("build")
        } else {
            cfg.builder().expect("builder").max_size(max_size).queue_mode(qm).runtime(Runtime::Tokio1).recycle_timeout(Some(Duration::from_millis(60))).build().expect("build")
        };
        let mut held: Vec<(Connection, usize)> = Vec::new();
        let mut taken: Vec<(redis::aio::MultiplexedConnection, usize, u64)> = Vec::new();
        let mut return_seq: HashMap<usize, u64> = HashMap::new();
        let mut dead: HashSet<usize> = HashSet::new();
        let mut idle: Vec<usize> = Vec::new();
        let mut force_overlap = false;
        macro_rules! v {
            ($oracle:expr, $($arg:tt)*) => {
                viol.push(Violation { prop: "C17", oracle: $oracle, msg: format!($($arg)*) })
            };
        }
        for step in 0..(n_ops + 1) {
            if !viol.is_empty() {
                break;
            }
            let last = step == n_ops;
            let x = if last { 1000 } else { rng.below(100) };
            let want_get = (x < 35 && held.len() < max_size) || (!last && held.is_empty() && idle.is_empty()) || (force_overlap && !last);
            if want_get || last {
                if last {
                    for (c, k) in held.drain(..) {
                        let _ = return_seq.insert(k, server.seq.load(Ordering::SeqCst));
                        idle.push(k);
                        drop(c);
                    }
                }
                let rounds = if last { max_size } else { 1 };
                let mut probe: Vec<(Connection, usize)> = Vec::new();
                // now and then two gets are in flight at once (their recycle checks overlap)
                let mut prefetched: Vec<Result<Result<Result<Connection, deadpool_redis::PoolError>, String>, tokio::time::error::Elapsed>> = Vec::new();
                let forced = std::mem::take(&mut force_overlap);
                if !last && max_size - held.len() >= 2 && (forced || rng.chance(1, 3)) {
                    let (a, b) = tokio::join!(tokio::time::timeout(Duration::from_secs(10), vh_common::catching(pool.get())), tokio::time::timeout(Duration::from_secs(10), vh_common::catching(pool.get())));
                    prefetched.push(a);
                    prefetched.push(b);
                    *counters.entry("overlapping_gets".into()).or_insert(0) += 1;
                }
                let rounds = if prefetched.is_empty() { rounds } else { 2 };
                for _ in 0..rounds {
                    let r = match prefetched.pop() {
                        Some(r) => r,
                        None => tokio::time::timeout(Duration::from_secs(10), vh_common::catching(pool.get())).await,
                    };
                    let r = match r {
                        Ok(Err(p)) => {
                            // whatever the server said: a connection that cannot be kept is discarded and
                            // replaced, the caller gets a connection or an error value
                            v!("get_panicked", "get() with {} of {} connections out panicked: {}", held.len() + probe.len(), max_size, p);
                            break;
                        }
                        Ok(Ok(r)) => Ok(r),
                        Err(e) => Err(e),
                    };
                    let mut c = match r {
                        Err(_) => {
                            v!("get_hang", "get() with {} of {} connections out did not return within 10s", held.len() + probe.len(), max_size);
                            break;
                        }
                        Ok(Err(e)) => {
                            v!("get_failed", "get() with {} of {} connections out failed: {:?}", held.len() + probe.len(), max_size, e);
                            break;
                        }
                        Ok(Ok(c)) => c,
                    };
                    let k = match ident(&mut c).await {
                        Ok(k) => k,
                        Err(e) => {
                            v!("unusable_connection_issued", "a connection handed out by get() cannot be used: {}", e);
                            break;
                        }
                    };
                    log.push(format!("get -> conn {}", k));
                    *counters.entry("handouts".into()).or_insert(0) += 1;
                    if dead.contains(&k) {
                        v!("bad_connection_reissued", "conn {} was handed out again although its recycle check got a wrong / missing / error reply or it was disconnected", k);
                    }
                    if taken.iter().any(|t| t.1 == k) {
                        v!("taken_connection_reissued", "conn {} was taken out of the pool but handed out again", k);
                    }
                    if let Some(since) = return_seq.get(&k).copied() {
                        *counters.entry("reuses".into()).or_insert(0) += 1;
                        let all = server.all_commands();
                        let st = server.conn(k);
                        let g = st.lock().unwrap();
                        let cmds: Vec<Vec<String>> = g.log.iter().filter(|(s, c)| *s >= since && c[0] != "VHID").map(|(_, c)| c.clone()).collect();
                        let names: Vec<&str> = cmds.iter().map(|c| c[0].as_str()).collect();
                        if names != ["UNWATCH", "PING"] || cmds[1].len() != 2 {
                            v!("recycle_traffic", "conn {}: between return and reuse the server saw {:?}, expected exactly UNWATCH then PING <value>", k, cmds);
                        } else {
                            let val = cmds[1][1].clone();
                            // the value must never have been used before on this pool
                            let my_seq = g.log.iter().filter(|(s, c)| *s >= since && c[0] == "PING").map(|x| x.0).next().unwrap_or(0);
                            let earlier = all.iter().filter(|(s, _, c)| *s < my_seq && c[0] == "PING" && c.get(1) == Some(&val)).count();
                            if earlier > 0 {
                                v!("ping_value_reused", "conn {}: the recycle PING carried {:?} which had been used {} times before on this pool", k, val, earlier);
                            }
                            let answered_ok = g.pings.iter().rev().find(|p| p.0 == my_seq).map(|p| p.2).unwrap_or(false);
                            if !answered_ok {
                                v!("bad_reply_accepted", "conn {} was handed out although the server did not echo its PING correctly", k);
                            }
                        }
                        if g.watching {
                            v!("watch_state_leaked", "conn {} was handed out while the server still has WATCH state from the previous user", k);
                        }
                    }
                    idle.retain(|i| *i != k);
                    if last {
                        probe.push((c, k));
                    } else {
                        held.push((c, k));
                    }
                }
                if last {
                    // taken connections are still usable and were left alone by the pool
                    for (c, k, since) in taken.iter_mut() {
                        match ident(c).await {
                            Ok(k2) if k2 == *k => {}
                            other => v!("taken_connection_broken", "taken conn {} no longer works: {:?}", k, other),
                        }
                        let st = server.conn(*k);
                        let touched: Vec<Vec<String>> = st.lock().unwrap().log.iter().filter(|(s, c)| *s >= *since && c[0] != "VHID").map(|x| x.1.clone()).collect();
                        if !touched.is_empty() {
                            v!("taken_connection_touched", "after Connection::take the pool still sent {:?} on conn {}", touched, k);
                        }
                    }
                    drop(probe);
                    break;
                }
                continue;
            }
            match x {
                35..=54 if !held.is_empty() => {
                    let i = rng.usize_below(held.len());
                    let (c, k) = held.swap_remove(i);
                    let _ = return_seq.insert(k, server.seq.load(Ordering::SeqCst));
                    idle.push(k);
                    log.push(format!("return conn {}", k));
                    drop(c);
                }
                55..=66 if !held.is_empty() => {
                    let i = rng.usize_below(held.len());
                    let r = tokio::time::timeout(Duration::from_secs(10), redis::cmd("WATCH").arg("key").query_async::<()>(&mut held[i].0)).await;
                    if !matches!(r, Ok(Ok(()))) {
                        v!("harness", "WATCH on conn {} failed: {:?}", held[i].1, r.map(|x| x.map_err(|e| e.to_string())));
                    }
                    log.push(format!("WATCH on conn {}", held[i].1));
                    nontrivial = true;
                }
                67..=72 if !held.is_empty() => {
                    let i = rng.usize_below(held.len());
                    let (c, k) = held.swap_remove(i);
                    let before = pool.status();
                    let m = Connection::take(c);
                    let after = pool.status();
                    if after.size + 1 != before.size {
                        v!("take_size", "Connection::take of conn {}: status().size went {} -> {}", k, before.size, after.size);
                    }
                    log.push(format!("take conn {}", k));
                    taken.push((m, k, server.seq.load(Ordering::SeqCst)));
                    nontrivial = true;
                }
                93..=96 if !held.is_empty() => {
                    // the server drops a connection that is checked out; it is returned at once
                    let i = rng.usize_below(held.len());
                    let (c, k) = held.swap_remove(i);
                    let st = server.conn(k);
                    st.lock().unwrap().kill = true;
                    for _ in 0..2000 {
                        if st.lock().unwrap().ended {
                            break;
                        }
                        tokio::time::sleep(Duration::from_micros(250)).await;
                    }
                    log.push(format!("server closed checked-out conn {}", k));
                    let _ = dead.insert(k);
                    let _ = return_seq.insert(k, server.seq.load(Ordering::SeqCst));
                    idle.push(k);
                    drop(c);
                    nontrivial = true;
                }
                73..=92 if !idle.is_empty() => {
                    let k = *rng.pick(&idle);
                    if dead.contains(&k) {
                        continue;
                    }
                    let st = server.conn(k);
                    let look = PingFault::Lookalike(rng.below(10) as u8);
                    let code = PingFault::ErrorCode(rng.below(crate::server::ERROR_REPLIES.len() as u64) as u8);
                    let shape = PingFault::Shape(rng.below(3) as u8);
                    let named = PingFault::Named(rng.below(2 * crate::server::NAMED_REPLIES.len() as u64) as u8);
                    let f = *rng.pick(&[PingFault::Stale, PingFault::Wrong, look, look, shape, shape, named, named, named, PingFault::Error, code, code, PingFault::Disconnect, PingFault::Silence]);
                    // "the echo of a newer PING of another connection" needs two recycles in flight: whenever
                    // that is possible it gets a third of the faults
                    let f = if idle.len() >= 2 && max_size - held.len() >= 2 && rng.chance(1, 3) { PingFault::Newest } else { f };
                    if rng.chance(1, 5) {
                        st.lock().unwrap().kill = true;
                        for _ in 0..2000 {
                            if st.lock().unwrap().ended {
                                break;
                            }
                            tokio::time::sleep(Duration::from_micros(250)).await;
                        }
                        log.push(format!("server closed conn {}", k));
                    } else if rng.chance(1, 5) {
                        st.lock().unwrap().refuse_unwatch = true;
                        log.push(format!("next UNWATCH on conn {} is refused", k));
                    } else {
                        st.lock().unwrap().next_ping = Some(f);
                        log.push(format!("next PING on conn {} gets {:?}", k, f));
                        if f == PingFault::Newest && idle.len() >= 2 && max_size - held.len() >= 2 {
                            // the answer needs a second recycle in flight: two gets at once come next
                            force_overlap = true;
                        }
                    }
                    *counters.entry(format!("fault:{}", format!("{:?}", f).split('(').next().unwrap())).or_insert(0) += 1;
                    let _ = dead.insert(k);
                    nontrivial = true;
                }
                _ => {}
            }
        }
        drop(held);
        drop(taken);
        drop(pool);
        acc.abort();
    });
    let mut h = Hasher::default();
    h.str(&config_desc);
    for l in &log {
        h.str(l);
    }
    Case {
        violations: viol,
        hash: h.0,
        nontrivial,
        events: log.len() as u64 + counters.values().sum::<u64>(),
        counters,
        desc: Json::obj().with("engine", "c17").with("seed", seed).with("index", idx).with("config", config_desc).with("log", log.iter().map(|s| Json::from(s.as_str())).collect::<Vec<_>>()),
    }
}

/// Recycles at full speed on a multi-thread runtime: the PING values seen by the server must still be
/// pairwise different ("a value not used before on that pool"), and every get must succeed.
/// Returns (recycles observed, violation).
pub fn ping_race(seed: u64, idx: u64) -> Case {
    let mut rng = Rng::derive(seed, 0xC17A, idx);
    let workers = rng.range(2, 8) as usize;
    let conns = rng.range(2, 12) as usize;
    let tasks = rng.range(conns as u64, 2 * conns as u64) as usize;
    // the first case of every run is a long one: more than 2^16 recycles on one pool (a counter that wraps early)
    let rounds = if idx == 0 { 70_000 / tasks + 1 } else { rng.range(200, 1500) as usize };
    let config_desc = format!("ping race: worker_threads={} max_size={} tasks={} rounds={}", workers, conns, tasks, rounds);
    let rt = tokio::runtime::Builder::new_multi_thread().worker_threads(workers).enable_all().build().expect("rt");
    let mut viol: Vec<Violation> = Vec::new();
    let mut counters: BTreeMap<String, u64> = BTreeMap::new();
    let mut log = vec![config_desc.clone()];
    rt.block_on(async {
        let (server, sock, acc) = start_unix().await.expect("listener");
        let cfg = Config::from_url(format!("unix://{}", sock.0.display()));
        let pool = cfg.builder().expect("builder").max_size(conns).runtime(Runtime::Tokio1).build().expect("build");
        let mut hs = Vec::new();
        for _ in 0..tasks {
            let pool = pool.clone();
            hs.push(tokio::spawn(async move {
                let mut failed: Option<String> = None;
                for _ in 0..rounds {
                    match tokio::time::timeout(Duration::from_secs(20), vh_common::catching(pool.get())).await {
                        Ok(Ok(Ok(c))) => drop(c),
                        Ok(Ok(Err(e))) => {
                            failed = Some(format!("{:?}", e));
                            break;
                        }
                        Ok(Err(p)) => {
                            failed = Some(format!("get() panicked: {}", p));
                            break;
                        }
                        Err(_) => {
                            failed = Some("get did not return within 20 s".into());
                            break;
                        }
                    }
                    tokio::task::yield_now().await;
                }
                failed
            }));
        }
        for h in hs {
            match h.await {
                Ok(None) => {}
                Ok(Some(e)) => viol.push(Violation { prop: "C17", oracle: "get_failed", msg: format!("a get() against a healthy server failed: {}", e) }),
                Err(_) => viol.push(Violation { prop: "C17", oracle: "harness", msg: "a task died".into() }),
            }
        }
        // every PING value the server has seen, over all connections of this pool
        let mut seen: HashMap<String, u64> = HashMap::new();
        let mut total = 0u64;
        for k in 0..server.n_conns() {
            let st = server.conn(k);
            for (_, v, _) in st.lock().unwrap().pings.iter() {
                *seen.entry(v.clone()).or_insert(0) += 1;
                total += 1;
            }
        }
        let dup: Vec<(&String, &u64)> = seen.iter().filter(|(_, n)| **n > 1).take(3).collect();
        if !dup.is_empty() {
            let n_dup = seen.values().filter(|n| **n > 1).count();
            viol.push(Violation { prop: "C17", oracle: "ping_value_reused", msg: format!("{} of {} recycle PING values were used more than once on this pool, e.g. {:?}", n_dup, total, dup) });
        }
        let _ = counters.insert("race_recycles".into(), total);
        let _ = counters.insert("race_connections".into(), server.n_conns() as u64);
        log.push(format!("{} recycles over {} connections, {} distinct values", total, server.n_conns(), seen.len()));
        drop(pool);
        acc.abort();
    });
    rt.shutdown_timeout(Duration::from_secs(2));
    let mut h = Hasher::default();
    h.str(&config_desc);
    Case {
        violations: viol,
        hash: h.0,
        nontrivial: true,
        events: counters.get("race_recycles").copied().unwrap_or(0),
        counters,
        desc: Json::obj().with("engine", "c17_ping_race").with("seed", seed).with("index", idx).with("config", config_desc).with("log", log.iter().map(|s| Json::from(s.as_str())).collect::<Vec<_>>()),
    }
}
