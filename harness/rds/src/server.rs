//! Scripted RESP server on a loopback TCP port: per-connection command log,
//! WATCH flag and scripted answers to the pool's recycle PING.

use std::sync::atomic::{AtomicU64, Ordering};
use std::sync::{Arc, Mutex};

use tokio::io::{AsyncRead, AsyncReadExt, AsyncWrite, AsyncWriteExt};
use tokio::net::{TcpListener, UnixListener};

#[derive(Clone, Copy, Debug, PartialEq, Eq)]
pub enum PingFault {
    /// echo the value of the previous PING seen on this server instead
    Stale,
    Wrong,
    /// the value of a PING that arrives *after* this one on another connection of the same server (overlapping
    /// recycles); if none arrives within 200 ms, an unrelated wrong value
    Newest,
    /// a well-known reply that is not the echo (index into NAMED_REPLIES; even = bulk string, odd = simple string)
    Named(u8),
    /// something that is not the value at all: 0 = nil, 1 = empty string, 2 = an array holding the value,
    /// 3 = the value followed by a second, unrequested reply
    Shape(u8),
    /// an error reply with one of the error codes redis-rs knows (index into ERROR_REPLIES)
    ErrorCode(u8),
    /// a value that merely looks like the one sent: "07", "+7", "7 ", " 7", "7.0" for "7"
    Lookalike(u8),
    Error,
    Disconnect,
    /// never answer
    Silence,
}

/// What servers and proxies answer to other commands (or to a PING without argument).
pub const NAMED_REPLIES: &[&str] = &["PONG", "pong", "OK", "QUEUED", "0", "1", "-1", "true", "PING"];

/// Error replies with the codes redis-rs maps to its own error kinds: every one of them is "an error reply".
pub const ERROR_REPLIES: &[&str] = &[
    "LOADING Redis is loading the dataset in memory",
    "BUSY Redis is busy running a script",
    "NOAUTH Authentication required.",
    "READONLY You can't write against a read only replica.",
    "MASTERDOWN Link with MASTER is down and replica-serve-stale-data is set to 'no'.",
    "CLUSTERDOWN The cluster is down",
    "TRYAGAIN Multiple keys request during rehashing of slot",
    "MOVED 3999 127.0.0.1:1",
    "ASK 3999 127.0.0.1:1",
    "EXECABORT Transaction discarded because of previous errors.",
    "NOSCRIPT No matching script.",
    "WRONGTYPE Operation against a key holding the wrong kind of value",
    "NOPERM this user has no permissions to run the 'ping' command",
    "MISCONF Redis is configured to save RDB snapshots",
    "OOM command not allowed when used memory > 'maxmemory'.",
];

#[derive(Default)]
pub struct RConn {
    pub log: Vec<(u64, Vec<String>)>,
    pub watching: bool,
    pub next_ping: Option<PingFault>,
    /// answer the next UNWATCH with an error (the WATCH state stays)
    pub refuse_unwatch: bool,
    /// (seq, value, answered correctly)
    pub pings: Vec<(u64, String, bool)>,
    pub kill: bool,
    pub ended: bool,
}

#[derive(Default)]
pub struct RServer {
    pub seq: AtomicU64,
    pub conns: Mutex<Vec<Arc<Mutex<RConn>>>>,
    pub last_ping: Mutex<Option<String>>,
    /// role reported by ROLE (sentinel scenarios)
    pub role: Mutex<String>,
    /// answer to SENTINEL MASTERS / GET-MASTER-ADDR-BY-NAME: (name, ip, port)
    pub sentinel_master: Mutex<Option<(String, String, u16)>>,
    pub port: Mutex<u16>,
}

impl RServer {
    pub fn conn(&self, k: usize) -> Arc<Mutex<RConn>> {
        self.conns.lock().unwrap()[k].clone()
    }
    pub fn n_conns(&self) -> usize {
        self.conns.lock().unwrap().len()
    }
    /// all commands (upper-cased name first) seen on any connection, in order of arrival
    pub fn all_commands(&self) -> Vec<(u64, usize, Vec<String>)> {
        let mut v = Vec::new();
        for (k, c) in self.conns.lock().unwrap().iter().enumerate() {
            for (s, cmd) in c.lock().unwrap().log.iter() {
                v.push((*s, k, cmd.clone()));
            }
        }
        v.sort();
        v
    }
}

/// Binds a listener (port 0 = ephemeral) and serves connections until aborted.
pub async fn start(port: u16) -> std::io::Result<(Arc<RServer>, u16, tokio::task::JoinHandle<()>)> {
    // a specific port is either free or not; an ephemeral one may be unavailable for a while after a burst of
    // loopback traffic (TIME_WAIT): wait for it instead of failing
    let mut listener = TcpListener::bind(("127.0.0.1", port)).await;
    if port == 0 {
        for _ in 0..600 {
            if listener.is_ok() {
                break;
            }
            tokio::time::sleep(std::time::Duration::from_millis(200)).await;
            listener = TcpListener::bind(("127.0.0.1", port)).await;
        }
    }
    let listener = listener?;
    let port = listener.local_addr()?.port();
    let server = Arc::new(RServer::default());
    *server.port.lock().unwrap() = port;
    *server.role.lock().unwrap() = "master".into();
    let srv = server.clone();
    let h = tokio::spawn(async move {
        loop {
            let Ok((s, _)) = listener.accept().await else { break };
            // replies are written one command at a time: without this the second reply of a pipeline waits
            // for the peer's delayed ACK (40 ms)
            let _ = s.set_nodelay(true);
            let st = Arc::new(Mutex::new(RConn::default()));
            let k = {
                let mut c = srv.conns.lock().unwrap();
                c.push(st.clone());
                c.len() - 1
            };
            drop(tokio::spawn(serve(s, k, st, srv.clone())));
        }
    });
    Ok((server, port, h))
}

static SOCKETS: AtomicU64 = AtomicU64::new(0);

/// Removes the socket file when the server goes away.
pub struct SocketPath(pub std::path::PathBuf);
impl Drop for SocketPath {
    fn drop(&mut self) {
        let _ = std::fs::remove_file(&self.0);
    }
}

/// The same scripted server on a unix domain socket. The random histories open tens of thousands of connections
/// in a minute; on loopback TCP that exhausts the ephemeral ports (TIME_WAIT) and `bind` fails with AddrInUse.
pub async fn start_unix() -> std::io::Result<(Arc<RServer>, SocketPath, tokio::task::JoinHandle<()>)> {
    let n = SOCKETS.fetch_add(1, Ordering::SeqCst);
    let path = std::env::temp_dir().join(format!("vh-redis-{}-{}.sock", std::process::id(), n));
    let _ = std::fs::remove_file(&path);
    let listener = UnixListener::bind(&path)?;
    let server = Arc::new(RServer::default());
    *server.role.lock().unwrap() = "master".into();
    let srv = server.clone();
    let h = tokio::spawn(async move {
        loop {
            let Ok((s, _)) = listener.accept().await else { break };
            let st = Arc::new(Mutex::new(RConn::default()));
            let k = {
                let mut c = srv.conns.lock().unwrap();
                c.push(st.clone());
                c.len() - 1
            };
            drop(tokio::spawn(serve(s, k, st, srv.clone())));
        }
    });
    Ok((server, SocketPath(path), h))
}

fn parse(buf: &[u8]) -> Option<(Vec<String>, usize)> {
    // *N\r\n($len\r\n bytes\r\n)*
    let mut pos = 0;
    let line = |pos: &mut usize| -> Option<String> {
        let st = *pos;
        while *pos + 1 < buf.len() {
            if buf[*pos] == b'\r' && buf[*pos + 1] == b'\n' {
                let s = String::from_utf8_lossy(&buf[st..*pos]).into_owned();
                *pos += 2;
                return Some(s);
            }
            *pos += 1;
        }
        None
    };
    let l = line(&mut pos)?;
    if !l.starts_with('*') {
        // inline command
        return Some((l.split_whitespace().map(|s| s.to_string()).collect(), pos));
    }
    let n: usize = l[1..].parse().ok()?;
    let mut out = Vec::new();
    for _ in 0..n {
        let l = line(&mut pos)?;
        let len: usize = l.get(1..)?.parse().ok()?;
        if pos + len + 2 > buf.len() {
            return None;
        }
        out.push(String::from_utf8_lossy(&buf[pos..pos + len]).into_owned());
        pos += len + 2;
    }
    Some((out, pos))
}

fn bulk(s: &str) -> Vec<u8> {
    format!("${}\r\n{}\r\n", s.len(), s).into_bytes()
}

async fn serve<S: AsyncRead + AsyncWrite + Unpin>(mut s: S, k: usize, st: Arc<Mutex<RConn>>, server: Arc<RServer>) {
    let mut buf: Vec<u8> = Vec::new();
    let mut tmp = [0u8; 4096];
    'outer: loop {
        // ---- read more
        let n = tokio::select! {
            r = s.read(&mut tmp) => match r { Ok(0) | Err(_) => break, Ok(n) => n },
            _ = wait_kill(&st) => break,
        };
        buf.extend_from_slice(&tmp[..n]);
        while let Some((cmd, used)) = parse(&buf) {
            buf.drain(..used);
            if cmd.is_empty() {
                continue;
            }
            let seq = server.seq.fetch_add(1, Ordering::SeqCst);
            let name = cmd[0].to_uppercase();
            let mut logged = cmd.clone();
            logged[0] = name.clone();
            st.lock().unwrap().log.push((seq, logged));
            let mut out: Vec<u8> = Vec::new();
            match name.as_str() {
                "PING" => {
                    let fault = st.lock().unwrap().next_ping.take();
                    let val = cmd.get(1).cloned();
                    let prev = server.last_ping.lock().unwrap().clone();
                    if let Some(v) = &val {
                        *server.last_ping.lock().unwrap() = Some(v.clone());
                    }
                    st.lock().unwrap().pings.push((seq, val.clone().unwrap_or_default(), fault.is_none()));
                    match fault {
                        None => match val {
                            Some(v) => out.extend(bulk(&v)),
                            None => out.extend(b"+PONG\r\n"),
                        },
                        Some(PingFault::Stale) => out.extend(bulk(&prev.unwrap_or_else(|| "stale".into()))),
                        Some(PingFault::Wrong) => out.extend(bulk("not-the-value")),
                        Some(PingFault::Lookalike(k)) => {
                            let v = val.clone().unwrap_or_default();
                            let n: Option<u128> = v.parse().ok();
                            let l = match k % 10 {
                                0 => format!("0{}", v),
                                1 => format!("+{}", v),
                                2 => format!("{} ", v),
                                3 => format!(" {}", v),
                                4 => format!("{}.0", v),
                                // numeric neighbours: one more, one less, ten times, far beyond any counter
                                5 => n.map(|n| (n + 1).to_string()).unwrap_or_else(|| format!("{}1", v)),
                                6 => n.map(|n| if n == 0 { u64::MAX.to_string() } else { (n - 1).to_string() }).unwrap_or_else(|| format!("{}0", v)),
                                7 => format!("{}0", v),
                                8 => "340282366920938463463374607431768211455".to_string(),
                                _ => format!("-{}", v),
                            };
                            // (a counter at 0 makes "one less" wrap and "-0" / "00" stay different strings)
                            let l = if l == v { format!("{}x", v) } else { l };
                            out.extend(bulk(&l))
                        }
                        Some(PingFault::Newest) => {
                            let mine = val.clone().unwrap_or_default();
                            let mut other: Option<String> = None;
                            for _ in 0..200 {
                                let cur = server.last_ping.lock().unwrap().clone();
                                if let Some(c) = cur {
                                    if c != mine {
                                        other = Some(c);
                                        break;
                                    }
                                }
                                tokio::time::sleep(std::time::Duration::from_millis(1)).await;
                            }
                            out.extend(bulk(&other.unwrap_or_else(|| "nothing-newer".into())))
                        }
                        Some(PingFault::Named(k)) => {
                            let mut name = NAMED_REPLIES[(k as usize / 2) % NAMED_REPLIES.len()];
                            if Some(name) == val.as_deref() {
                                // "0" or "1" may be the very value that was sent: that would be the echo
                                name = "PONG";
                            }
                            if k % 2 == 0 {
                                out.extend(bulk(name))
                            } else {
                                out.extend(format!("+{}\r\n", name).as_bytes())
                            }
                        }
                        Some(PingFault::Shape(k)) => {
                            let v = val.clone().unwrap_or_default();
                            match k % 3 {
                                0 => out.extend(b"$-1\r\n"),
                                1 => out.extend(bulk("")),
                                _ => {
                                    out.extend(b"*1\r\n");
                                    out.extend(bulk(&v));
                                }
                            }
                        }
                        Some(PingFault::Error) => out.extend(b"-ERR scripted failure\r\n"),
                        Some(PingFault::ErrorCode(k)) => out.extend(format!("-{}\r\n", ERROR_REPLIES[k as usize % ERROR_REPLIES.len()]).as_bytes()),
                        Some(PingFault::Disconnect) => break 'outer,
                        Some(PingFault::Silence) => {}
                    }
                }
                "UNWATCH" => {
                    let refuse = std::mem::take(&mut st.lock().unwrap().refuse_unwatch);
                    if refuse {
                        let k = server.seq.load(Ordering::SeqCst) as usize;
                        out.extend(format!("-{}\r\n", ERROR_REPLIES[k % ERROR_REPLIES.len()]).as_bytes());
                    } else {
                        st.lock().unwrap().watching = false;
                        out.extend(b"+OK\r\n");
                    }
                }
                "WATCH" => {
                    st.lock().unwrap().watching = true;
                    out.extend(b"+OK\r\n");
                }
                "VHID" => out.extend(format!(":{}\r\n", k).into_bytes()),
                "HELLO" => {
                    // minimal RESP3 map
                    out.extend(b"%1\r\n$6\r\nserver\r\n$5\r\nredis\r\n");
                }
                "GET" => out.extend(b"$-1\r\n"),
                "ECHO" => out.extend(bulk(cmd.get(1).map(|s| s.as_str()).unwrap_or(""))),
                "ROLE" => {
                    let role = server.role.lock().unwrap().clone();
                    out.extend(format!("*3\r\n${}\r\n{}\r\n:0\r\n*0\r\n", role.len(), role).into_bytes());
                }
                "SENTINEL" => {
                    let sub = cmd.get(1).map(|s| s.to_uppercase()).unwrap_or_default();
                    let m = server.sentinel_master.lock().unwrap().clone();
                    match (sub.as_str(), m) {
                        ("MASTERS", Some((name, ip, port))) => {
                            let fields = [("name", name), ("ip", ip), ("port", port.to_string()), ("flags", "master".to_string())];
                            out.extend(format!("*1\r\n*{}\r\n", fields.len() * 2).into_bytes());
                            for (a, b) in fields {
                                out.extend(bulk(a));
                                out.extend(bulk(&b));
                            }
                        }
                        ("GET-MASTER-ADDR-BY-NAME", Some((_, ip, port))) => {
                            out.extend(b"*2\r\n");
                            out.extend(bulk(&ip));
                            out.extend(bulk(&port.to_string()));
                        }
                        _ => out.extend(b"*0\r\n"),
                    }
                }
                "CLUSTER" => {
                    // one slot range served by this very node
                    let port = *server.port.lock().unwrap();
                    out.extend(format!("*1\r\n*3\r\n:0\r\n:16383\r\n*2\r\n$9\r\n127.0.0.1\r\n:{}\r\n", port).into_bytes());
                }
                _ => out.extend(b"+OK\r\n"),
            }
            if !out.is_empty() && s.write_all(&out).await.is_err() {
                break 'outer;
            }
        }
    }
    st.lock().unwrap().ended = true;
}

async fn wait_kill(st: &Arc<Mutex<RConn>>) {
    loop {
        if st.lock().unwrap().kill {
            return;
        }
        tokio::time::sleep(std::time::Duration::from_micros(200)).await;
    }
}
