//! C08, the configured route: whatever spelling of a queue mode a deserialiser accepts selects the
//! mode it names. The pool is built from the deserialised `PoolConfig` and asked which idle object
//! it offers first.

use deadpool::managed::{Pool, PoolConfig, QueueMode, Timeouts};
use std::sync::Arc;
use std::time::Duration;
use vh_common::Violation;

use crate::th::poll_once;
use crate::th::race::{Cnt, SMgr};

const NB: Timeouts = Timeouts { wait: Some(Duration::ZERO), create: None, recycle: None };

pub const SPELLINGS: &[&str] = &["Fifo", "Lifo", "fifo", "lifo", "FIFO", "LIFO", "fIFO", "lIFO", "FiFo", "LiFo", " Fifo", "Lifo ", "0", "1", "first", "last", "queue", "stack", ""];

/// Which object a pool with this config offers after objects 0 and 1 were returned in that order.
fn first_offered(cfg: PoolConfig) -> Result<usize, String> {
    let cnt = Arc::new(Cnt::default());
    let pool: Pool<SMgr> = Pool::builder(SMgr(cnt)).config(cfg).build().map_err(|e| format!("build: {:?}", e))?;
    let a = poll_once(pool.timeout_get(&NB)).ok_or("get suspended")?.map_err(|e| format!("{:?}", e))?;
    let b = poll_once(pool.timeout_get(&NB)).ok_or("get suspended")?.map_err(|e| format!("{:?}", e))?;
    let (ia, ib) = (a.1, b.1);
    if (ia, ib) != (0, 1) {
        return Err(format!("fresh objects have ids {} and {}", ia, ib));
    }
    drop(a);
    drop(b);
    let c = poll_once(pool.timeout_get(&NB)).ok_or("get suspended")?.map_err(|e| format!("{:?}", e))?;
    Ok(c.1)
}

pub struct Out {
    pub violations: Vec<Violation>,
    pub accepted: u64,
    pub refused: u64,
    pub cases: u64,
}

pub fn run(prop: &'static str) -> Out {
    let mut o = Out { violations: Vec::new(), accepted: 0, refused: 0, cases: 0 };
    for sp in SPELLINGS {
        let named = match sp.trim().to_lowercase().as_str() {
            "fifo" => Some(QueueMode::Fifo),
            "lifo" => Some(QueueMode::Lifo),
            _ => None,
        };
        // route 1: plain serde (JSON); route 2: the `config` crate (environment-style string values)
        let json = format!("{{\"max_size\": 3, \"queue_mode\": {}}}", serde_json::to_string(sp).unwrap());
        let r1: Result<PoolConfig, String> = serde_json::from_str(&json).map_err(|e| e.to_string());
        let r2: Result<PoolConfig, String> = config::Config::builder()
            .set_override("max_size", 3)
            .and_then(|b| b.set_override("queue_mode", *sp))
            .and_then(|b| b.build())
            .and_then(|c| c.try_deserialize::<PoolConfig>())
            .map_err(|e| e.to_string());
        for (route, r) in [("serde_json", r1), ("config crate", r2)] {
            o.cases += 1;
            let cfg = match r {
                Err(_) => {
                    o.refused += 1;
                    if matches!(*sp, "Fifo" | "Lifo") {
                        o.violations.push(Violation { prop, oracle: "queue_mode_name_refused", msg: format!("the documented spelling {:?} is refused by {}", sp, route) });
                    }
                    continue;
                }
                Ok(c) => c,
            };
            o.accepted += 1;
            let Some(named) = named else { continue };
            if matches!(cfg.queue_mode, QueueMode::Fifo) != matches!(named, QueueMode::Fifo) {
                o.violations.push(Violation { prop, oracle: "queue_mode_name", msg: format!("{}: queue_mode {:?} was accepted and read as {:?}", route, sp, cfg.queue_mode) });
                continue;
            }
            let want = if matches!(named, QueueMode::Fifo) { 0 } else { 1 };
            match first_offered(cfg) {
                Ok(got) if got == want => {}
                Ok(got) => o.violations.push(Violation { prop, oracle: "reuse_order", msg: format!("{}: a pool configured with queue_mode {:?} offered object {} first after objects 0 and 1 were returned in that order", route, sp, got) }),
                Err(e) => o.violations.push(Violation { prop, oracle: "race_call_failed", msg: format!("{}: queue_mode {:?}: {}", route, sp, e) }),
            }
        }
    }
    o
}
