//! C03: abandonment matrix. After a random prefix the pool is brought to
//! rest, one get() is driven to a chosen suspension point and abandoned in a
//! chosen way; ground truth and status() before/after are compared, then the
//! history continues with a random suffix and the capacity probe.

use std::sync::{Arc, Mutex};
use std::time::Duration;

use vh_common::Rng;

use super::director::*;
use super::manager::lock;
use super::run::*;
use super::types::*;
use super::world::World;

#[derive(Clone, Copy, Debug, PartialEq, Eq)]
pub enum Point {
    WaitForSlot,
    PreRecycle(u8),
    Recycle,
    PostRecycle(u8),
    Create,
    PostCreate(u8),
}
impl Point {
    pub fn name(self) -> String {
        match self {
            Point::WaitForSlot => "wait_for_slot".into(),
            Point::PreRecycle(i) => format!("pre_recycle[{}]", i),
            Point::Recycle => "recycle".into(),
            Point::PostRecycle(i) => format!("post_recycle[{}]", i),
            Point::Create => "create".into(),
            Point::PostCreate(i) => format!("post_create[{}]", i),
        }
    }
}

#[derive(Clone, Copy, Debug, PartialEq, Eq)]
pub enum Kind {
    Drop,
    OuterTimeout,
    Panic,
}

pub const POINT_CLASSES: [&str; 6] = ["wait_for_slot", "pre_recycle", "recycle", "post_recycle", "create", "post_create"];
pub const KINDS: [&str; 3] = ["Drop", "OuterTimeout", "Panic"];

async fn to_rest(d: &mut Director, rng: &mut Rng) {
    // finish everything that is inside a callback; leave waiters and held objects alone
    let mut guard = 0;
    loop {
        guard += 1;
        if d.world().stop() || guard > 500 {
            return;
        }
        let ready = d.ready_tasks();
        if !ready.is_empty() {
            let t = *rng.pick(&ready);
            d.poll_task(t, format!("poll t{}", t));
            continue;
        }
        let gates = d.world().open_gates();
        if !gates.is_empty() {
            d.release(gates[0], Script::Ok);
            continue;
        }
        break;
    }
    d.check_quiescence();
}

pub fn run_case(rt: &tokio::runtime::Runtime, seed: u64, idx: u64, keep_log: bool) -> HistoryOut {
    let p = Profile { outer: false, ..profile_for("C03") };
    let mut rng = Rng::derive(seed, 0xC03, idx);
    // configuration: make sure hooks exist often, any flavour
    let mut cfg = {
        let hooks = |rng: &mut Rng| -> Vec<HookFlavor> {
            (0..rng.usize_below(3)).map(|_| if rng.chance(1, 3) { HookFlavor::Sync } else { HookFlavor::Async }).collect()
        };
        PoolCfg {
            max_size: rng.range(1, 4) as usize,
            mode: if rng.chance(1, 2) { Mode::Fifo } else { Mode::Lifo },
            post_create: hooks(&mut rng),
            pre_recycle: hooks(&mut rng),
            post_recycle: hooks(&mut rng),
            wait: None,
            create: None,
            recycle: None,
            // no runtime: no other caller can have a finite timeout that fires while the clock is advanced
            runtime: false,
        }
    };
    if rng.chance(1, 10) {
        cfg.max_size = 0;
    }
    let cfg_desc = cfg.describe();
    let mut world = World::new("C03", cfg.clone(), Rng::new(rng.next_u64()));
    world.p_err = p.p_err;
    world.p_panic = p.p_panic;
    world.p_gate = p.p_gate;
    world.keep_log = keep_log;
    world.ev(format!("C03 case {} seed {}: {}", idx, seed, cfg_desc));
    let w = Arc::new(Mutex::new(world));
    let mut sched = 0;
    let mut states = Default::default();
    rt.block_on(async {
        let pool = match build_pool(&w) {
            Ok(p) => p,
            Err(e) => {
                lock(&w).viol(&["*"], "harness_build", e);
                return;
            }
        };
        lock(&w).op = Op::Idle;
        let mut d = Director::new(w.clone(), pool);
        // ---- random prefix
        let pre = Profile { actions: rng.range(0, 40) as usize * 4, ..p.clone() };
        drive_n(&mut d, &pre, &mut rng).await;
        to_rest(&mut d, &mut rng).await;
        if !d.world().stop() {
            matrix_step(&mut d, &cfg, &mut rng).await;
        }
        // ---- random suffix under the global oracles, then the probe
        if !d.world().stop() {
            let suf = Profile { actions: 40, ..p.clone() };
            drive_n(&mut d, &suf, &mut rng).await;
        }
        if !d.world().stop() {
            settle_and_probe(&mut d, &p, &mut rng).await;
        }
        lock(&w).op = Op::DropPool;
        lock(&w).pool_dropped = true;
        lock(&w).teardown = true;
        sched = d.sched.0;
        states = std::mem::take(&mut d.states);
        let _ = std::panic::catch_unwind(std::panic::AssertUnwindSafe(move || drop(d)));
    });
    let mut wl = lock(&w);
    HistoryOut {
        violations: std::mem::take(&mut wl.violations),
        foreign: wl.foreign.len(),
        log: std::mem::take(&mut wl.log),
        hash: wl.log_hash.0,
        sched,
        states,
        nontrivial: nontrivial_for("C03", &wl.counters, wl.nontrivial),
        counters: std::mem::take(&mut wl.counters),
        events: wl.callbacks + wl.action_no,
        cfg: cfg_desc,
    }
}

async fn matrix_step(d: &mut Director, cfg: &PoolCfg, rng: &mut Rng) {
    // ---- figures before
    let (free, idle_n, live0, held0, waiting0, closed) = {
        let w = d.world();
        (w.free_capacity(), w.ref_idle.len(), w.live(), w.held(), w.waiting_tasks(), w.closed)
    };
    if closed || d.pool.is_none() {
        return;
    }
    let st0 = d.pool.as_ref().unwrap().status();
    let class = if waiting0 > 0 {
        "waiters"
    } else if free <= 0 {
        "full"
    } else if idle_n > 0 {
        "idle_present"
    } else if live0 == 0 {
        "empty"
    } else {
        "partial"
    };
    // ---- feasible (point, kind, rejects-before) combinations
    let mut options: Vec<(Point, Kind, usize)> = Vec::new();
    let flavor_ok = |f: HookFlavor, k: Kind| k == Kind::Panic || f == HookFlavor::Async;
    if free <= 0 {
        options.push((Point::WaitForSlot, Kind::Drop, 0));
        options.push((Point::WaitForSlot, Kind::OuterTimeout, 0));
    } else {
        for k in [Kind::Drop, Kind::OuterTimeout, Kind::Panic] {
            for rejects in 0..=idle_n.min(2) {
                if idle_n > rejects {
                    for (i, f) in cfg.pre_recycle.iter().enumerate() {
                        if flavor_ok(*f, k) {
                            options.push((Point::PreRecycle(i as u8), k, rejects));
                        }
                    }
                    options.push((Point::Recycle, k, rejects));
                    for (i, f) in cfg.post_recycle.iter().enumerate() {
                        if flavor_ok(*f, k) {
                            options.push((Point::PostRecycle(i as u8), k, rejects));
                        }
                    }
                }
                if idle_n == rejects {
                    options.push((Point::Create, k, rejects));
                    for (i, f) in cfg.post_create.iter().enumerate() {
                        if flavor_ok(*f, k) {
                            options.push((Point::PostCreate(i as u8), k, rejects));
                        }
                    }
                }
            }
        }
    }
    if options.is_empty() {
        return;
    }
    // prefer rarely hit classes: pick a point class first, then among its options
    let classes: Vec<&str> = POINT_CLASSES.iter().copied().filter(|c| options.iter().any(|o| o.0.name().starts_with(c))).collect();
    let pc = *rng.pick(&classes);
    let opts: Vec<_> = options.iter().filter(|o| o.0.name().starts_with(pc)).copied().collect();
    let (point, kind, rejects) = *rng.pick(&opts);
    // ---- script of the get
    let n_pre = cfg.pre_recycle.len();
    let n_post = cfg.post_recycle.len();
    let mut script: Vec<Script> = Vec::new();
    for _ in 0..rejects {
        // reject an idle object at a random step of its chain
        let fail_at = rng.usize_below(n_pre + 1 + n_post);
        for _ in 0..fail_at {
            script.push(Script::Ok);
        }
        script.push(Script::Err);
    }
    let oks = match point {
        Point::WaitForSlot => 0,
        Point::PreRecycle(i) => i as usize,
        Point::Recycle => n_pre,
        Point::PostRecycle(i) => n_pre + 1 + i as usize,
        Point::Create => 0,
        Point::PostCreate(i) => 1 + i as usize,
    };
    if point != Point::WaitForSlot {
        for _ in 0..oks {
            script.push(Script::Ok);
        }
        script.push(if kind == Kind::Panic { Script::Panic } else { Script::Gate });
    }
    let outer = Duration::from_millis(70);
    let tk = TaskKind { per_call: None, outer: if kind == Kind::OuterTimeout { Some(outer) } else { None } };
    let destructed_before = d.world().objs.iter().filter(|o| o.state == ObjState::Gone).count();
    d.world().ev(format!("-- C03 matrix: {} x {:?} x {} (rejects before: {})", point.name(), kind, class, rejects));
    let t = d.start_task(tk, script);
    if d.world().stop() {
        return;
    }
    // ---- is the task where we wanted it?
    let suspended_ok = {
        let w = d.world();
        match (kind, point) {
            (Kind::Panic, _) => w.tasks[t].phase == Phase::Done,
            (_, Point::WaitForSlot) => w.tasks[t].phase == Phase::Waiting,
            _ => w.tasks[t].phase == Phase::Admitted && w.gates.iter().any(|g| g.task == t && g.open),
        }
    };
    if !suspended_ok {
        d.world().bump("c03:setup_missed");
        return;
    }
    match kind {
        Kind::Drop => d.abandon(t),
        Kind::OuterTimeout => {
            d.advance(outer).await;
            if d.tasks[t].fut.is_some() {
                d.poll_task(t, format!("poll t{} (outer timeout due)", t));
            }
        }
        Kind::Panic => {}
    }
    // ---- back to rest
    let mut guard = 0;
    while !d.ready_tasks().is_empty() && guard < 100 && !d.world().stop() {
        guard += 1;
        let r = d.ready_tasks();
        d.poll_task(r[0], format!("poll t{}", r[0]));
    }
    if d.world().stop() {
        return;
    }
    let finished = d.world().tasks[t].phase == Phase::Done;
    if !finished {
        d.world().viol(&["C03"], "abandoned_call_still_alive", format!("task {} is still alive after {:?}", t, kind));
        return;
    }
    // other tasks may have progressed (a freed slot wakes a waiter) only if the call held a slot
    let st1 = d.pool.as_ref().unwrap().status();
    let mut w = d.world();
    let discarded = w.objs.iter().filter(|o| o.state == ObjState::Gone).count() - destructed_before;
    let admitted_now = w.admitted_unfinished();
    let key = format!("c03:{}:{:?}:{}", pc, kind, class);
    w.bump(&key);
    w.bump(&format!("c03cell:{}:{:?}", pc, kind));
    w.nontrivial = true;
    if admitted_now == 0 {
        // nobody else is mid-call: the figures must be those from before minus the discarded objects
        let (live1, held1, waiting1, idle1) = (w.live(), w.held(), w.waiting_tasks(), w.ref_idle.len());
        let expect_discard = if point == Point::WaitForSlot { 0 } else { rejects + if matches!(point, Point::Create) { 0 } else { 1 } };
        if discarded != expect_discard {
            w.viol(&["C03", "C04"], "abandon_discard_count", format!("{} objects were discarded by the abandoned call, expected {} ({} rejected + the one in hand)", discarded, expect_discard, rejects));
        }
        let created_discard = if matches!(point, Point::PostCreate(_)) { 1.min(discarded) } else { 0 };
        let idle_discard = discarded - created_discard;
        if live1 + idle_discard != live0 || held1 != held0 || waiting1 != waiting0 || idle1 + idle_discard != idle_n {
            w.viol(
                &["C03"],
                "abandon_changed_ground_truth",
                format!("before: live={} idle={} held={} waiting={}; after: live={} idle={} held={} waiting={}; discarded={}", live0, idle_n, held0, waiting0, live1, idle1, held1, waiting1, discarded),
            );
        }
        if st1.max_size != st0.max_size || st1.size + idle_discard != st0.size || st1.available + idle_discard != st0.available || st1.waiting != st0.waiting {
            w.viol(
                &["C03"],
                "abandon_changed_status",
                format!("status before {:?}, after {:?}; the call discarded {} idle objects", st0, st1, idle_discard),
            );
        }
        w.bump("c03:differentials_checked");
    }
}
