//! C10: timeouts, non-blocking mode and missing runtimes — a finite table of
//! directed scenarios on the virtual clock, each compared with a reference
//! outcome (where the documentation leaves a case open both outcomes are
//! accepted).

use std::sync::{Arc, Mutex};
use std::future::Future as _;
use std::time::Duration;

use deadpool::managed::{Pool, Timeouts};
use deadpool::Runtime;
use vh_common::Rng;

use super::director::*;
use super::manager::{lock, ScriptedManager};
use super::run::*;
use super::types::*;
use super::world::World;

#[derive(Clone, Copy, Debug, PartialEq, Eq)]
pub enum T3 {
    None,
    Zero,
    Finite,
}
pub const T3S: [T3; 3] = [T3::None, T3::Zero, T3::Finite];
pub const D: u64 = 100; // ms, the finite timeout

impl T3 {
    pub fn dur(self) -> Option<Duration> {
        match self {
            T3::None => None,
            T3::Zero => Some(Duration::ZERO),
            T3::Finite => Some(Duration::from_millis(D)),
        }
    }
}

/// When an awaited event happens relative to the deadline that guards it.
#[derive(Clone, Copy, Debug, PartialEq, Eq)]
pub enum When {
    Immediately,
    Before,
    AtDeadline,
    After,
    Never,
}
pub const WHENS: [When; 5] = [When::Immediately, When::Before, When::AtDeadline, When::After, When::Never];
impl When {
    fn delay(self) -> Option<u64> {
        match self {
            When::Immediately => Some(0),
            When::Before => Some(D / 2),
            When::AtDeadline => Some(D),
            When::After => Some(D + D / 2),
            When::Never => None,
        }
    }
}

#[derive(Clone, Copy, Debug)]
pub struct Scn {
    pub runtime: bool,
    pub wait: T3,
    pub create: T3,
    pub recycle: T3,
    /// when the single slot becomes free (Immediately = it is free from the start)
    pub slot: When,
    /// true: the call finds an idle object (recycle path), false: it has to create
    pub idle: bool,
    /// when the create / recycle step finishes, counted from the moment it starts
    pub step: When,
}

impl Scn {
    pub fn sig(&self) -> String {
        format!("rt={};wait={:?};create={:?};recycle={:?};slot={:?};idle={};step={:?}", self.runtime, self.wait, self.create, self.recycle, self.slot, self.idle, self.step)
    }
}

pub fn scenarios() -> Vec<Scn> {
    let mut v = Vec::new();
    for runtime in [true, false] {
        for wait in T3S {
            for create in T3S {
                for recycle in T3S {
                    for slot in WHENS {
                        for idle in [false, true] {
                            for step in WHENS {
                                v.push(Scn { runtime, wait, create, recycle, slot, idle, step });
                            }
                        }
                    }
                }
            }
        }
    }
    v
}

/// Set of acceptable result classes.
/// classes: "ok_reused", "ok_created", "timeout_wait", "timeout_create", "no_runtime", "pending"
pub fn expected(s: &Scn) -> Vec<&'static str> {
    // ---- missing runtime
    if !s.runtime {
        // recycle timeout without runtime: reported (either up front or when the step is reached)
        if s.recycle != T3::None {
            // up-front report is the documented fix; nothing may be discarded
            return vec!["no_runtime"];
        }
        if s.wait == T3::Finite {
            return vec!["no_runtime"];
        }
    }
    // ---- waiting for the slot
    let admitted_at: Option<u64> = match (s.wait, s.slot) {
        (_, When::Immediately) => Some(0),
        (T3::Zero, _) => return vec!["timeout_wait"],
        (T3::None, w) => match w.delay() {
            Some(d) => Some(d),
            None => return vec!["pending"],
        },
        (T3::Finite, When::Before) => Some(D / 2),
        (T3::Finite, When::AtDeadline) => {
            // both orders are legitimate at the same virtual instant
            let mut a = expected(&Scn { slot: When::Before, ..*s });
            a.push("timeout_wait");
            return a;
        }
        (T3::Finite, _) => return vec!["timeout_wait"],
    };
    let _ = admitted_at;
    // ---- the step
    if s.idle {
        // recycle path
        let passes = match (s.recycle, s.step) {
            (T3::None, When::Never) => return vec!["pending"],
            (T3::None, _) => Some(true),
            (T3::Zero, When::Immediately) => Some(true),
            (T3::Zero, _) => Some(false),
            (T3::Finite, When::Immediately) | (T3::Finite, When::Before) => Some(true),
            (T3::Finite, When::AtDeadline) => None,
            (T3::Finite, _) => Some(false),
        };
        // a timed-out recycle counts as a rejected object: the call goes on and creates (create step
        // is immediate in these scenarios unless a create timeout without runtime stops it)
        let after_reject: &'static str = if !s.runtime && s.create != T3::None { "no_runtime" } else { "ok_created" };
        match passes {
            Some(true) => {
                if !s.runtime && s.create != T3::None {
                    // create timeout configured without runtime but never needed: left open
                    vec!["ok_reused", "no_runtime"]
                } else {
                    vec!["ok_reused"]
                }
            }
            Some(false) => vec![after_reject],
            None => {
                if !s.runtime && s.create != T3::None {
                    vec!["ok_reused", "no_runtime"]
                } else {
                    vec!["ok_reused", after_reject]
                }
            }
        }
    } else {
        if !s.runtime && s.create != T3::None {
            return vec!["no_runtime"];
        }
        match (s.create, s.step) {
            (T3::None, When::Never) => vec!["pending"],
            (T3::None, _) => vec!["ok_created"],
            (T3::Zero, When::Immediately) => vec!["ok_created"],
            (T3::Zero, _) => vec!["timeout_create"],
            (T3::Finite, When::Immediately) | (T3::Finite, When::Before) => vec!["ok_created"],
            (T3::Finite, When::AtDeadline) => vec!["ok_created", "timeout_create"],
            (T3::Finite, _) => vec!["timeout_create"],
        }
    }
}

pub fn run_scn(rt: &tokio::runtime::Runtime, s: &Scn, keep_log: bool) -> HistoryOut {
    let cfg = PoolCfg {
        max_size: 1,
        mode: Mode::Fifo,
        post_create: vec![],
        pre_recycle: vec![],
        post_recycle: vec![],
        wait: None,
        create: None,
        recycle: None,
        runtime: s.runtime,
    };
    let desc = s.sig();
    let mut world = World::new("C10", cfg, Rng::new(1));
    world.keep_log = keep_log;
    world.p_err = 0;
    world.p_panic = 0;
    world.p_gate = 0;
    world.ev(format!("C10 scenario {}", desc));
    let w = Arc::new(Mutex::new(world));
    let mut sched = 0;
    let mut states = Default::default();
    rt.block_on(async {
        let pool = match build_pool(&w) {
            Ok(p) => p,
            Err(e) => {
                lock(&w).viol(&["*"], "harness_build", e);
                return;
            }
        };
        lock(&w).op = Op::Idle;
        let mut d = Director::new(w.clone(), pool);
        // ---- set-up
        let busy = s.slot != When::Immediately;
        // one object exists whenever the slot is busy or an idle object is wanted
        if busy || s.idle {
            let _ = d.start_task(NB, Vec::new());
            if !busy {
                d.return_obj(0);
            }
        }
        if d.world().stop() {
            return;
        }
        let destructed0 = d.world().objs.iter().filter(|o| o.state == ObjState::Gone).count();
        // ---- the call under test
        let script = match s.step {
            When::Immediately => vec![Script::Ok],
            _ => vec![Script::Gate],
        };
        let kind = TaskKind { per_call: Some(CallTimeouts { wait: s.wait.dur(), create: s.create.dur(), recycle: s.recycle.dur() }), outer: None };
        let t = d.start_task(kind, script);
        // ---- the timeline, in steps of D/2
        let mut now = 0u64;
        let mut admitted_at: Option<u64> = None;
        let mut freed = !busy;
        let mut released = false;
        for _ in 0..10 {
            if d.world().stop() {
                return;
            }
            // due events at `now`
            if !freed && s.slot.delay() == Some(now) {
                freed = true;
                if !d.held.is_empty() {
                    if s.idle {
                        d.return_obj(0);
                    } else {
                        d.take_obj(0);
                    }
                }
            }
            // run whatever is runnable
            let mut guard = 0;
            loop {
                guard += 1;
                let r = d.ready_tasks();
                if r.is_empty() || guard > 20 {
                    break;
                }
                d.poll_task(r[0], format!("poll t{}", r[0]));
            }
            if admitted_at.is_none() && d.world().tasks[t].phase == Phase::Admitted {
                admitted_at = Some(now);
            }
            if let (Some(a), Some(dl), false) = (admitted_at, s.step.delay(), released) {
                if now >= a + dl {
                    let gates = d.world().open_gates();
                    if let Some(g) = gates.first().copied() {
                        d.release(g, Script::Ok);
                        released = true;
                        let mut guard = 0;
                        loop {
                            guard += 1;
                            let r = d.ready_tasks();
                            if r.is_empty() || guard > 20 {
                                break;
                            }
                            d.poll_task(r[0], format!("poll t{}", r[0]));
                        }
                    }
                }
            }
            if d.tasks[t].fut.is_none() {
                break;
            }
            d.advance(Duration::from_millis(D / 2)).await;
            now += D / 2;
        }
        // ---- verdict
        let (res, created_chain) = {
            let w = d.world();
            let res = w.tasks[t].result.clone();
            let cc = res.as_deref().and_then(|r| r.strip_prefix("ok:obj")).and_then(|x| x.parse::<usize>().ok()).map(|id| w.objs[id].handouts == 1);
            (res, cc)
        };
        let class = match (res.as_deref(), created_chain) {
            (None, _) => "pending",
            (Some(r), Some(true)) if r.starts_with("ok:") => "ok_created",
            (Some(r), _) if r.starts_with("ok:") => "ok_reused",
            (Some("err:Timeout(Wait)"), _) => "timeout_wait",
            (Some("err:Timeout(Create)"), _) => "timeout_create",
            (Some("err:NoRuntimeSpecified"), _) => "no_runtime",
            (Some(_), _) => "other",
        };
        let exp = expected(s);
        {
            let mut w = d.world();
            w.ev(format!("result class {} (acceptable: {:?})", class, exp));
            w.bump(&format!("c10:class:{}", class));
            w.nontrivial = class != "ok_created" || s.step != When::Immediately;
            if !exp.contains(&class) {
                w.viol(&["C10"], "timeout_table", format!("scenario {} ended with {} ({:?}); the documented behaviour allows {:?}", desc, class, res, exp));
            }
            // a call that ends in NoRuntimeSpecified must not have destroyed anything
            let destructed1 = w.objs.iter().filter(|o| o.state == ObjState::Gone).count();
            if class == "no_runtime" && destructed1 != destructed0 {
                w.viol(&["C10"], "no_runtime_discarded_objects", format!("scenario {}: the call reported NoRuntimeSpecified but destroyed {} objects", desc, destructed1 - destructed0));
            }
            // zero-wait calls never suspend while waiting for the slot (checked online as well)
            if s.wait == T3::Zero && w.tasks[t].pending_polls > 0 && w.tasks[t].calls == 0 {
                w.viol(&["C10"], "zero_wait_pending", format!("scenario {}: zero-wait call suspended without having a slot", desc));
            }
        }
        if class == "pending" {
            d.abandon(t);
        }
        if !d.world().stop() {
            // slot released after every outcome: capacity probe
            if !freed {
                while !d.held.is_empty() {
                    d.return_obj(0);
                }
            }
            let p = profile_for("C10");
            let mut rng = Rng::new(3);
            settle_and_probe(&mut d, &p, &mut rng).await;
        }
        lock(&w).op = Op::DropPool;
        lock(&w).pool_dropped = true;
        lock(&w).teardown = true;
        sched = d.sched.0;
        states = std::mem::take(&mut d.states);
        let _ = std::panic::catch_unwind(std::panic::AssertUnwindSafe(move || drop(d)));
    });
    let mut wl = lock(&w);
    HistoryOut {
        violations: std::mem::take(&mut wl.violations),
        foreign: wl.foreign.len(),
        log: std::mem::take(&mut wl.log),
        hash: wl.log_hash.0,
        sched,
        states,
        counters: std::mem::take(&mut wl.counters),
        nontrivial: wl.nontrivial,
        events: wl.callbacks + wl.action_no,
        cfg: desc,
    }
}

// ------------------------------------------------------------------ build()

/// build() with every combination of configured timeouts and runtime.
/// Returns (cases, violations as text).
pub fn build_table() -> (u64, Vec<String>) {
    let mut bad = Vec::new();
    let mut n = 0;
    for runtime in [true, false] {
        for wait in T3S {
            for create in T3S {
                for recycle in T3S {
                    n += 1;
                    let w = Arc::new(Mutex::new(World::new(
                        "C10",
                        PoolCfg { max_size: 1, mode: Mode::Fifo, post_create: vec![], pre_recycle: vec![], post_recycle: vec![], wait: None, create: None, recycle: None, runtime },
                        Rng::new(1),
                    )));
                    let mut b = Pool::<ScriptedManager>::builder(ScriptedManager { w: w.clone() })
                        .max_size(1)
                        .timeouts(Timeouts { wait: wait.dur(), create: create.dur(), recycle: recycle.dur() });
                    if runtime {
                        b = b.runtime(Runtime::Tokio1);
                    }
                    let r = std::panic::catch_unwind(std::panic::AssertUnwindSafe(|| b.build()));
                    let any_nonzero = [wait, create, recycle].iter().any(|t| *t == T3::Finite);
                    let any_set = [wait, create, recycle].iter().any(|t| *t != T3::None);
                    match r {
                        Err(_) => bad.push(format!("build() panicked for runtime={} wait={:?} create={:?} recycle={:?}", runtime, wait, create, recycle)),
                        Ok(Ok(p)) => {
                            if !runtime && any_nonzero {
                                bad.push(format!("build() accepted a non-zero timeout without runtime (wait={:?} create={:?} recycle={:?})", wait, create, recycle));
                            }
                            let t = p.timeouts();
                            if t.wait != wait.dur() || t.create != create.dur() || t.recycle != recycle.dur() {
                                bad.push(format!("built pool reports timeouts {:?}, configured wait={:?} create={:?} recycle={:?}", t, wait, create, recycle));
                            }
                        }
                        Ok(Err(_)) => {
                            if runtime || !any_set {
                                bad.push(format!("build() refused runtime={} wait={:?} create={:?} recycle={:?}", runtime, wait, create, recycle));
                            }
                        }
                    }
                    if lock(&w).callbacks != 0 {
                        bad.push("build() called the manager".into());
                    }
                }
            }
        }
    }
    (n, bad)
}


// ------------------------------------------------------------------ zero wait on the real clock

/// "With a zero wait timeout it never waits": judged by the first poll on a runtime with the REAL
/// clock (on the paused clock a zero-length timer is indistinguishable from no timer at all).
/// Returns (cases, violations).
pub fn zero_wait_real_clock() -> (u64, Vec<String>) {
    use deadpool::unmanaged;
    let rt = tokio::runtime::Builder::new_current_thread().enable_time().build().expect("rt");
    let mut bad = Vec::new();
    let mut n = 0;
    rt.block_on(async {
        let waker = std::task::Waker::from(Arc::new(super::director::Flag(std::sync::atomic::AtomicBool::new(false))));
        let mut cx = std::task::Context::from_waker(&waker);
        // ---- unmanaged, runtime set, pool empty: timeout_get(Some(0)) and get() with a configured zero timeout
        for via_config in [false, true] {
            for with_runtime in [true, false] {
                n += 1;
                let mut c = unmanaged::PoolConfig::new(1);
                c.runtime = if with_runtime { Some(Runtime::Tokio1) } else { None };
                c.timeout = if via_config { Some(Duration::ZERO) } else { None };
                let pool: unmanaged::Pool<u32> = unmanaged::Pool::from_config(&c);
                let mut fut: std::pin::Pin<Box<dyn std::future::Future<Output = Result<unmanaged::Object<u32>, unmanaged::PoolError>>>> =
                    if via_config { Box::pin(pool.get()) } else { Box::pin(pool.timeout_get(Some(Duration::ZERO))) };
                match fut.as_mut().poll(&mut cx) {
                    std::task::Poll::Ready(Err(unmanaged::PoolError::Timeout)) => {}
                    std::task::Poll::Ready(other) => bad.push(format!("unmanaged zero-timeout get (config={}, runtime={}) on an empty pool returned {:?}", via_config, with_runtime, other.map(|_| ()))),
                    std::task::Poll::Pending => bad.push(format!("unmanaged zero-timeout get (config={}, runtime={}) on an empty pool suspended instead of failing at once", via_config, with_runtime)),
                }
            }
        }
        // ---- managed, runtime set, all slots in use
        for via_config in [false, true] {
            n += 1;
            let w = Arc::new(Mutex::new(World::new(
                "C10",
                PoolCfg { max_size: 1, mode: Mode::Fifo, post_create: vec![], pre_recycle: vec![], post_recycle: vec![], wait: if via_config { Some(Duration::ZERO) } else { None }, create: None, recycle: None, runtime: true },
                Rng::new(1),
            )));
            lock(&w).probe_mode = true;
            let pool = match build_pool(&w) {
                Ok(p) => p,
                Err(e) => {
                    bad.push(format!("harness: {}", e));
                    continue;
                }
            };
            lock(&w).op = Op::Poll(0);
            lock(&w).tasks.push(super::world::TaskInfo {
                kind: TaskKind { per_call: None, outer: None },
                eff: CallTimeouts { wait: None, create: None, recycle: None },
                phase: Phase::NotPolled,
                started_at: None,
                std_created: std::time::Instant::now(),
                call_started_at: None,
                last_fail: None,
                script: Default::default(),
                calls: 0,
                pending_polls: 0,
                had_to_wait: false,
                result: None,
                free_at_start: 1,
                closed_at_start: false,
            });
            let held = pool.timeouts();
            let _ = held;
            let first = {
                let mut f = Box::pin(pool.timeout_get(&Timeouts { wait: Some(Duration::ZERO), create: None, recycle: None }));
                f.as_mut().poll(&mut cx)
            };
            let obj = match first {
                std::task::Poll::Ready(Ok(o)) => o,
                _ => {
                    bad.push("harness: could not take the only slot".into());
                    continue;
                }
            };
            let t = Timeouts { wait: Some(Duration::ZERO), create: None, recycle: None };
            let mut fut: std::pin::Pin<Box<dyn std::future::Future<Output = Result<Wrapped, deadpool::managed::PoolError<super::manager::ErrNo>>>>> = if via_config { Box::pin(pool.get()) } else { Box::pin(pool.timeout_get(&t)) };
            match fut.as_mut().poll(&mut cx) {
                std::task::Poll::Ready(Err(deadpool::managed::PoolError::Timeout(deadpool::managed::TimeoutType::Wait))) => {}
                std::task::Poll::Ready(other) => bad.push(format!("managed zero-wait get (config={}) with all slots in use returned {:?}", via_config, other.map(|_| ()))),
                std::task::Poll::Pending => bad.push(format!("managed zero-wait get (config={}) with all slots in use suspended instead of failing at once", via_config)),
            }
            drop(fut);
            lock(&w).teardown = true;
            drop(obj);
            drop(pool);
        }
    });
    (n, bad)
}
