//! Ground truth ("world") of the task-level engine: everything the harness
//! knows independently of the pool's own counters, and the online oracles.

use std::collections::{BTreeMap, VecDeque};
use std::task::Waker;

use deadpool::managed::Metrics;
use vh_common::{Rng, Violation};

use super::types::*;

pub struct ObjInfo {
    pub state: ObjState,
    pub created_chain: bool,
    pub next_step: usize,
    pub in_call: bool,
    pub doomed: bool,
    pub handouts: u32,
    pub detach: u32,
    pub need_detach: bool,
    pub detach_exempt: bool,
    pub m_created: Option<std::time::Instant>,
    pub m_recycled: Option<std::time::Instant>,
    pub gone_action: u64,
    pub checked_gone: bool,
}

pub struct TaskInfo {
    pub kind: TaskKind,
    pub eff: CallTimeouts,
    pub phase: Phase,
    pub started_at: Option<tokio::time::Instant>,
    /// real (std) instant at which the get() call was created: the recycle of this hand-out cannot be older
    pub std_created: std::time::Instant,
    pub call_started_at: Option<tokio::time::Instant>,
    pub last_fail: Option<(CallKind, Outcome)>,
    pub script: VecDeque<Script>,
    pub calls: u32,
    pub pending_polls: u32,
    pub had_to_wait: bool,
    pub result: Option<String>,
    /// free capacity (ground truth) when the task was first polled
    pub free_at_start: i64,
    pub closed_at_start: bool,
}

pub struct GateInfo {
    pub task: usize,
    pub kind: CallKind,
    pub obj: Option<u32>,
    pub released: Option<Outcome>,
    pub waker: Option<Waker>,
    pub open: bool,
}

#[derive(Clone, Copy, Debug)]
pub struct Ticket {
    pub task: usize,
    pub kind: CallKind,
    pub obj: Option<u32>,
    pub gate: Option<usize>,
}

pub struct World {
    pub prop: &'static str,
    pub cfg: PoolCfg,
    pub rng: Rng,
    pub log: Vec<String>,
    pub objs: Vec<ObjInfo>,
    pub tasks: Vec<TaskInfo>,
    pub gates: Vec<GateInfo>,
    pub op: Op,
    pub action_no: u64,
    pub max_size_now: usize,
    pub closed: bool,
    pub pool_dropped: bool,
    pub resized: bool,
    pub shrunk: bool,
    pub did_abandon: bool,
    pub did_take: bool,
    pub did_retain: bool,
    pub ref_idle: VecDeque<u32>,
    pub creating: usize,
    pub next_err: u32,
    pub violations: Vec<Violation>,
    /// an oracle of another property fired: stop the history quietly
    pub foreign: Vec<Violation>,
    pub p_err: u32,
    pub p_panic: u32,
    pub p_gate: u32,
    pub probe_mode: bool,
    pub counters: BTreeMap<String, u64>,
    pub callbacks: u64,
    /// retain bookkeeping for the call in progress
    pub pred_log: Vec<(u32, bool)>,
    pub nontrivial: bool,
    pub keep_log: bool,
    pub teardown: bool,
    pub log_hash: vh_common::Hasher,
    /// systematic enumeration of callback outcomes for one task (C04)
    pub dfs: Option<Dfs>,
    /// probability (per cent) that the wrapper conversion at the end of get() panics
    pub p_wrap_panic: u32,
    /// object that went back to the pool because the wrapper conversion panicked
    pub wrap_returned: Option<u32>,
}

/// Depth-first enumeration state: the decisions of `task` follow `prefix`,
/// then default to 0; every decision taken is recorded with its arity.
pub struct Dfs {
    pub task: usize,
    pub prefix: Vec<u8>,
    pub taken: Vec<(u8, u8)>,
    /// gates opened for the task: true = the director shall abandon the task there
    pub abandon_at_gate: bool,
    pub suspend_ok: bool,
}

impl World {
    pub fn new(prop: &'static str, cfg: PoolCfg, rng: Rng) -> World {
        let max = cfg.max_size;
        World {
            prop,
            cfg,
            rng,
            log: Vec::new(),
            objs: Vec::new(),
            tasks: Vec::new(),
            gates: Vec::new(),
            op: Op::Build,
            action_no: 0,
            max_size_now: max,
            closed: false,
            pool_dropped: false,
            resized: false,
            shrunk: false,
            did_abandon: false,
            did_take: false,
            did_retain: false,
            ref_idle: VecDeque::new(),
            creating: 0,
            next_err: 1,
            violations: Vec::new(),
            foreign: Vec::new(),
            p_err: 10,
            p_panic: 3,
            p_gate: 30,
            probe_mode: false,
            counters: BTreeMap::new(),
            callbacks: 0,
            pred_log: Vec::new(),
            nontrivial: false,
            keep_log: true,
            teardown: false,
            log_hash: Default::default(),
            dfs: None,
            p_wrap_panic: 0,
            wrap_returned: None,
        }
    }

    pub fn ev(&mut self, s: String) {
        self.log_hash.str(&s);
        if self.keep_log {
            self.log.push(s);
        }
    }

    pub fn bump(&mut self, k: &str) {
        *self.counters.entry(k.to_string()).or_insert(0) += 1;
    }

    /// An oracle fired. `props` lists the properties the observation refutes.
    pub fn viol(&mut self, props: &[&'static str], oracle: &'static str, msg: String) {
        if self.teardown {
            return;
        }
        self.ev(format!("!! ORACLE {} {:?}: {}", oracle, props, msg));
        let v = Violation {
            prop: self.prop,
            oracle,
            msg,
        };
        if props.contains(&self.prop) || props.contains(&"*") {
            self.violations.push(v);
        } else {
            self.foreign.push(Violation {
                prop: props.first().copied().unwrap_or("?"),
                ..v
            });
        }
    }

    /// A history ends at the first violation of the property under test. Oracles of other
    /// properties do not end it at once (their firing may be the first symptom of a defect that
    /// breaks this property a few steps later), but not for long: the shadow state follows what
    /// was observed, not what should have happened.
    pub fn stop(&self) -> bool {
        !self.violations.is_empty() || self.foreign.len() > 3
    }

    // ------------------------------------------------------------ ground truth figures

    pub fn held(&self) -> usize {
        self.objs
            .iter()
            .filter(|o| matches!(o.state, ObjState::Held | ObjState::Returning))
            .count()
    }
    pub fn admitted_unfinished(&self) -> usize {
        self.tasks.iter().filter(|t| t.phase == Phase::Admitted).count()
    }
    pub fn waiting_tasks(&self) -> usize {
        self.tasks.iter().filter(|t| t.phase == Phase::Waiting).count()
    }
    /// objects that exist inside the pool's responsibility
    pub fn live(&self) -> usize {
        self.objs
            .iter()
            .filter(|o| {
                matches!(
                    o.state,
                    ObjState::Held | ObjState::Returning | ObjState::Idle | ObjState::InHand { .. }
                )
            })
            .count()
    }
    pub fn in_hand(&self) -> usize {
        self.objs
            .iter()
            .filter(|o| matches!(o.state, ObjState::InHand { .. }))
            .count()
    }
    pub fn free_capacity(&self) -> i64 {
        self.max_size_now as i64 - (self.held() + self.admitted_unfinished()) as i64
    }
    /// properties refuted by a capacity anomaly, depending on what the history contained
    pub fn capacity_props(&self) -> Vec<&'static str> {
        let mut v = vec!["C02"];
        if self.closed {
            v.push("C06");
        }
        if self.resized {
            v.push("C07");
        } else {
            v.push("C01");
        }
        if self.did_abandon {
            v.push("C03");
        }
        if self.did_take || self.did_retain {
            v.push("C09");
        }
        v
    }

    fn chain(&self, created: bool) -> Vec<CallKind> {
        let mut c = Vec::new();
        if created {
            c.push(CallKind::Create);
            for i in 0..self.cfg.post_create.len() {
                c.push(CallKind::PostCreate(i as u8));
            }
        } else {
            for i in 0..self.cfg.pre_recycle.len() {
                c.push(CallKind::PreRecycle(i as u8));
            }
            c.push(CallKind::Recycle);
            for i in 0..self.cfg.post_recycle.len() {
                c.push(CallKind::PostRecycle(i as u8));
            }
        }
        c
    }

    pub fn obj_ready(&self, id: u32) -> bool {
        let o = &self.objs[id as usize];
        o.next_step == self.chain(o.created_chain).len() && !o.doomed && !o.in_call
    }

    // ------------------------------------------------------------ callbacks

    /// Start of a manager / hook callback.
    pub fn begin_call(
        &mut self,
        kind: CallKind,
        obj: Option<(u32, Metrics)>,
        is_async: bool,
    ) -> (Plan, Ticket) {
        self.callbacks += 1;
        let t = match self.op {
            Op::Poll(t) => t,
            other => {
                self.viol(
                    &["C08"],
                    "callback_outside_get",
                    format!("{} called while the harness was doing {:?} (not polling a get)", kind.name(), other),
                );
                return (
                    Plan::Now(Outcome::Ok),
                    Ticket {
                        task: usize::MAX,
                        kind,
                        obj: obj.map(|o| o.0),
                        gate: None,
                    },
                );
            }
        };
        // ---- admission
        if self.tasks[t].phase != Phase::Admitted {
            let in_use = self.held() + self.admitted_unfinished();
            let waiters = self.waiting_tasks();
            if self.closed {
                self.viol(
                    &["C06"],
                    "admitted_after_close",
                    format!("task {} obtained a slot after close() had returned", t),
                );
            } else if in_use >= self.max_size_now {
                let props: &[&'static str] = if self.resized { &["C07"] } else { &["C01", "C02"] };
                self.viol(
                    props,
                    "admission_over_limit",
                    format!(
                        "task {} admitted while held={} + admitted-unfinished={} >= max_size={}",
                        t,
                        self.held(),
                        self.admitted_unfinished(),
                        self.max_size_now
                    ),
                );
            }
            if in_use + 1 == self.max_size_now || waiters > 1 || self.tasks[t].had_to_wait {
                self.nontrivial = true;
                self.bump("admissions_at_limit_or_after_wait");
            }
            self.bump("admissions");
            self.tasks[t].phase = Phase::Admitted;
        }
        self.tasks[t].last_fail = None;
        self.tasks[t].calls += 1;
        self.tasks[t].call_started_at = Some(tokio::time::Instant::now());

        // ---- object protocol
        match (kind, obj) {
            (CallKind::Create, _) => {
                if !self.ref_idle.is_empty() {
                    self.viol(
                        &["C08"],
                        "create_with_idle_available",
                        format!("create called by task {} while idle objects {:?} were in the pool", t, self.ref_idle),
                    );
                }
                if !self.resized && self.live() + self.creating + 1 > self.max_size_now {
                    self.viol(
                        &["C01"],
                        "create_over_limit",
                        format!(
                            "create called while {} objects exist and {} creates are in flight (max_size {})",
                            self.live(),
                            self.creating,
                            self.max_size_now
                        ),
                    );
                }
                self.creating += 1;
                self.ev(format!("  cb t{} create", t));
            }
            (k, Some((id, m))) => {
                self.ev(format!("  cb t{} {} obj{} rc={}", t, k.name(), id, m.recycle_count));
                self.obj_call_checks(t, k, id, &m);
            }
            (k, None) => unreachable!("{:?} without object", k),
        }

        // ---- plan
        let ticket = Ticket {
            task: t,
            kind,
            obj: obj.map(|o| o.0),
            gate: None,
        };
        let plan = self.decide(t, kind, obj.map(|o| o.0), is_async);
        let ticket = match plan {
            Plan::Gate(g) => Ticket { gate: Some(g), ..ticket },
            _ => ticket,
        };
        (plan, ticket)
    }

    fn obj_call_checks(&mut self, t: usize, kind: CallKind, id: u32, m: &Metrics) {
        let idx = id as usize;
        if idx >= self.objs.len() {
            self.viol(&["C04"], "unknown_object", format!("callback for unknown object {}", id));
            return;
        }
        match self.objs[idx].state {
            ObjState::Idle => {
                // the pool took this object out of the idle queue: order oracle
                let expected = match self.cfg.mode {
                    Mode::Fifo => self.ref_idle.front().copied(),
                    Mode::Lifo => self.ref_idle.back().copied(),
                };
                if expected != Some(id) {
                    self.viol(
                        &["C08"],
                        "reuse_order",
                        format!(
                            "{:?}: get tried obj{} but reference idle queue is {:?} (expected {:?})",
                            self.cfg.mode, id, self.ref_idle, expected
                        ),
                    );
                }
                if self.ref_idle.len() > 1 {
                    self.bump("pops_with_choice");
                }
                self.ref_idle.retain(|x| *x != id);
                let o = &mut self.objs[idx];
                o.state = ObjState::InHand { task: t };
                o.created_chain = false;
                o.next_step = 0;
                o.doomed = false;
                o.in_call = false;
            }
            ObjState::InHand { task } if task == t => {}
            s => {
                self.viol(
                    &["C04"],
                    "callback_on_foreign_object",
                    format!("{} for obj{} in state {:?} by task {}", kind.name(), id, s, t),
                );
                return;
            }
        }
        let chain = self.chain(self.objs[idx].created_chain);
        let o = &self.objs[idx];
        let exp = chain.get(o.next_step).copied();
        if exp != Some(kind) || o.in_call || o.doomed {
            let (ns, ic, d) = (o.next_step, o.in_call, o.doomed);
            self.viol(
                &["C04"],
                "callback_order",
                format!(
                    "{} for obj{}: expected {:?} (step {} of {:?}), in_call={}, failed_before={}",
                    kind.name(),
                    id,
                    exp,
                    ns,
                    chain,
                    ic,
                    d
                ),
            );
        }
        // metrics as seen by hooks / recycle: those of before the current hand-out
        let o = &self.objs[idx];
        let want_rc = o.handouts.saturating_sub(1) as usize;
        let created_chain = o.created_chain;
        let want_rc = if created_chain { 0 } else { want_rc };
        if m.recycle_count != want_rc {
            self.viol(
                &["C13"],
                "metrics_seen_by_callback",
                format!(
                    "{} saw recycle_count {} for obj{} but it has been re-issued {} times before this hand-out",
                    kind.name(),
                    m.recycle_count,
                    id,
                    want_rc
                ),
            );
        }
        let o = &self.objs[idx];
        match o.m_created {
            Some(c) => {
                if c != m.created {
                    self.viol(&["C13"], "metrics_created_changed", format!("created instant of obj{} changed (seen by {})", id, kind.name()));
                }
            }
            None => {
                // first sight of the object (a post_create hook): that is its creation instant from now on
                self.objs[idx].m_created = Some(m.created);
            }
        }
        let o = &self.objs[idx];
        if o.m_created.is_some() && o.m_recycled != m.recycled {
            self.viol(
                &["C13"],
                "metrics_recycled_seen_by_callback",
                format!("{} saw recycled={:?} for obj{}, last reported {:?}", kind.name(), m.recycled, id, o.m_recycled),
            );
        }
        self.objs[idx].in_call = true;
    }

    fn decide(&mut self, t: usize, kind: CallKind, obj: Option<u32>, is_async: bool) -> Plan {
        if self.probe_mode {
            return Plan::Now(Outcome::Ok);
        }
        let dfs_choice = match &mut self.dfs {
            Some(d) if d.task == t => {
                let arity: u8 = if is_async { 4 } else { 3 };
                let c = d.prefix.get(d.taken.len()).copied().unwrap_or(0).min(arity - 1);
                d.taken.push((c, arity));
                Some(match c {
                    0 => {
                        // alternate between immediate and suspended success so both paths are driven
                        if is_async && d.suspend_ok && d.taken.len() % 2 == 0 {
                            d.abandon_at_gate = false;
                            Script::Gate
                        } else {
                            Script::Ok
                        }
                    }
                    1 => Script::Err,
                    2 => Script::Panic,
                    _ => {
                        d.abandon_at_gate = true;
                        Script::Gate
                    }
                })
            }
            _ => None,
        };
        let s = if let Some(s) = dfs_choice {
            s
        } else if let Some(s) = self.tasks[t].script.pop_front() {
            s
        } else {
            let x = self.rng.below(100) as u32;
            if x < self.p_err {
                Script::Err
            } else if x < self.p_err + self.p_panic {
                Script::Panic
            } else if x < self.p_err + self.p_panic + self.p_gate {
                Script::Gate
            } else {
                Script::Ok
            }
        };
        match s {
            Script::Ok => Plan::Now(Outcome::Ok),
            Script::Err => {
                self.next_err += 1;
                Plan::Now(Outcome::Err(self.next_err))
            }
            Script::Panic => {
                self.next_err += 1;
                Plan::Now(Outcome::Panic(self.next_err))
            }
            Script::Gate => {
                if !is_async {
                    return Plan::Now(Outcome::Ok);
                }
                self.gates.push(GateInfo {
                    task: t,
                    kind,
                    obj,
                    released: None,
                    waker: None,
                    open: true,
                });
                Plan::Gate(self.gates.len() - 1)
            }
        }
    }

    /// The callback's outcome takes effect. For `create` + Ok returns the new object id.
    pub fn end_call(&mut self, tk: Ticket, outcome: Outcome) -> Option<u32> {
        if tk.task == usize::MAX {
            return if tk.kind == CallKind::Create { Some(self.new_obj(usize::MAX)) } else { None };
        }
        if let Some(g) = tk.gate {
            self.gates[g].open = false;
        }
        self.ev(format!("  cb t{} {} -> {}", tk.task, tk.kind.name(), outcome.name()));
        let key = format!("outcome:{}:{}{}", tk.kind.class(), outcome.class(), if tk.gate.is_some() { ":after_gate" } else { "" });
        self.bump(&key);
        if outcome != Outcome::Ok {
            self.tasks[tk.task].last_fail = Some((tk.kind, outcome));
        }
        if tk.kind == CallKind::Create {
            self.creating -= 1;
            if outcome == Outcome::Ok {
                return Some(self.new_obj(tk.task));
            }
            return None;
        }
        let id = tk.obj.unwrap() as usize;
        if id < self.objs.len() {
            let o = &mut self.objs[id];
            o.in_call = false;
            if outcome == Outcome::Ok {
                o.next_step += 1;
            } else {
                o.doomed = true;
            }
        }
        None
    }

    fn new_obj(&mut self, task: usize) -> u32 {
        self.objs.push(ObjInfo {
            state: ObjState::InHand { task },
            created_chain: true,
            next_step: 1,
            in_call: false,
            doomed: false,
            handouts: 0,
            detach: 0,
            need_detach: false,
            detach_exempt: false,
            m_created: None,
            m_recycled: None,
            gone_action: 0,
            checked_gone: false,
        });
        let id = (self.objs.len() - 1) as u32;
        self.ev(format!("  + obj{} constructed (task {})", id, task));
        id
    }

    /// `W::from(Object)` is about to run for `id`. Returns Some(n) if the conversion shall panic.
    pub fn begin_wrap(&mut self, id: u32, m: &Metrics) -> Option<u32> {
        let t = match self.op {
            Op::Poll(t) => t,
            _ => return None,
        };
        if self.probe_mode || self.dfs.is_some() || self.p_wrap_panic == 0 || (self.rng.below(100) as u32) >= self.p_wrap_panic {
            return None;
        }
        self.next_err += 1;
        let n = self.next_err;
        self.ev(format!("  cb t{} wrap obj{} -> panic#{}", t, id, n));
        self.bump("outcome:wrap:panic");
        self.tasks[t].last_fail = Some((CallKind::Wrap, Outcome::Panic(n)));
        // the object was complete: unwinding drops the `Object`, i.e. returns it to the pool
        let o = &mut self.objs[id as usize];
        o.state = ObjState::Returning;
        o.handouts += 1;
        o.m_created = Some(m.created);
        o.m_recycled = m.recycled;
        self.wrap_returned = Some(id);
        Some(n)
    }

    pub fn on_detach(&mut self, id: u32) {
        self.callbacks += 1;
        self.ev(format!("  detach obj{} during {:?}", id, self.op));
        if matches!(self.op, Op::Idle | Op::Build) {
            self.viol(&["C08"], "detach_outside_operation", format!("detach(obj{}) while no pool operation was running", id));
        }
        if matches!(self.op, Op::DropPool) && self.objs[id as usize].state == ObjState::Idle {
            self.viol(&["C08"], "detach_on_pool_drop", format!("detach(obj{}) was called when the last pool handle was dropped: the manager may only be invoked from get / retain / take / resize / close / the return of an object", id));
        }
        let o = &mut self.objs[id as usize];
        o.detach += 1;
        if o.detach > 1 {
            self.viol(&["C09", "C03", "C04"], "detach_twice", format!("Manager::detach called {} times for obj{}", self.objs[id as usize].detach, id));
        }
    }

    pub fn on_destruct(&mut self, id: u32) {
        let op = self.op;
        let idx = id as usize;
        let st = self.objs[idx].state;
        self.ev(format!("  - obj{} destructed (state {:?}, during {:?})", id, st, op));
        match st {
            ObjState::InHand { .. } => {
                if !self.objs[idx].doomed && !matches!(op, Op::DropPool) {
                    self.viol(
                        &["C04", "C03"],
                        "verified_object_dropped",
                        format!("obj{} was dropped inside get() although no step had failed or been cancelled", id),
                    );
                }
                self.objs[idx].need_detach = true;
            }
            ObjState::Returning => {
                self.objs[idx].need_detach = !self.pool_dropped;
            }
            ObjState::Idle => {
                self.ref_idle.retain(|x| *x != id);
                match op {
                    Op::Resize(_) | Op::Close => self.objs[idx].need_detach = true,
                    Op::DropPool => self.objs[idx].detach_exempt = true,
                    _ => {
                        self.viol(
                            &["C09", "C08", "C02"],
                            "idle_object_destroyed",
                            format!("idle obj{} was destroyed during {:?}", id, op),
                        );
                    }
                }
            }
            ObjState::Held => {
                self.viol(&["*"], "held_object_destroyed", format!("obj{} destroyed while a caller holds it", id));
            }
            ObjState::External => {}
            ObjState::Gone => {}
        }
        if matches!(op, Op::Idle | Op::Build) && st != ObjState::External {
            self.viol(&["C08"], "destruct_outside_operation", format!("obj{} destroyed while no pool operation was running", id));
        }
        self.objs[idx].state = ObjState::Gone;
        self.objs[idx].gone_action = self.action_no;
    }

    /// The future of a callback was dropped before it finished.
    pub fn on_call_dropped(&mut self, tk: Ticket) {
        if tk.task == usize::MAX {
            return;
        }
        // why may the pool drop the future of a callback before it finished?
        //  - the caller abandons the get() (drop / enclosing timeout / teardown)
        //  - a create / recycle timeout of a pool with a runtime has expired
        if !self.teardown {
            let now = tokio::time::Instant::now();
            let t = &self.tasks[tk.task];
            let outer_due = match (t.kind.outer, t.started_at) {
                (Some(d), Some(s)) => s.checked_add(d).map(|dl| now >= dl).unwrap_or(false),
                _ => false,
            };
            let abandoned = matches!(self.op, Op::Abandon(_) | Op::DropPool) || (matches!(self.op, Op::Poll(_)) && outer_due);
            let timeout_due = |d: Option<std::time::Duration>| match (d, t.call_started_at) {
                (Some(d), Some(s)) => self.cfg.runtime && s.checked_add(d).map(|dl| now >= dl).unwrap_or(false),
                _ => false,
            };
            let by_timeout = match tk.kind {
                CallKind::Create => timeout_due(t.eff.create),
                CallKind::Recycle => timeout_due(t.eff.recycle),
                _ => false,
            };
            // a create timeout on a pool without runtime: the call ends with NoRuntimeSpecified and the
            // (never polled) create future is dropped; no object is involved
            let no_runtime_create = tk.kind == CallKind::Create && !self.cfg.runtime && t.eff.create.is_some();
            let panicking = std::thread::panicking();
            if !abandoned && !by_timeout && !panicking && !no_runtime_create {
                let (k, ef, rt) = (tk.kind.name(), t.eff, self.cfg.runtime);
                self.viol(
                    &["C04", "C10"],
                    "callback_cancelled_without_reason",
                    format!("the pool dropped the future of {} of task {} although the caller did not give up and no timeout was due (timeouts {:?}, runtime {})", k, tk.task, ef, rt),
                );
            }
        }
        let _ = self.end_call(tk, Outcome::Dropped);
    }

    // ------------------------------------------------------------ gates

    pub fn open_gates(&self) -> Vec<usize> {
        self.gates
            .iter()
            .enumerate()
            .filter(|(_, g)| g.open && g.released.is_none())
            .map(|(i, _)| i)
            .collect()
    }

    pub fn release_gate(&mut self, g: usize, script: Script) -> Option<Waker> {
        let o = match script {
            Script::Ok | Script::Gate => Outcome::Ok,
            Script::Err => {
                self.next_err += 1;
                Outcome::Err(self.next_err)
            }
            Script::Panic => {
                self.next_err += 1;
                Outcome::Panic(self.next_err)
            }
        };
        self.gates[g].released = Some(o);
        self.gates[g].waker.take()
    }

    // ------------------------------------------------------------ end-of-action sweep

    /// Consistency sweep after every director action (nothing is mid-update at
    /// task level between two actions).
    pub fn sweep(&mut self) {
        let closed = self.closed;
        let mut msgs: Vec<(&'static [&'static str], &'static str, String)> = Vec::new();
        for (id, o) in self.objs.iter_mut().enumerate() {
            match o.state {
                ObjState::InHand { task } => {
                    let done = task == usize::MAX || self.tasks[task].phase == Phase::Done;
                    if done {
                        msgs.push((
                            &["C03", "C04", "C02"],
                            "object_lost_in_get",
                            format!("obj{} still in the hands of finished task {} (neither handed out nor discarded)", id, task),
                        ));
                    } else if o.doomed && !o.in_call {
                        msgs.push((
                            &["C04", "C03"],
                            "rejected_object_kept",
                            format!("obj{} failed a step but was not discarded before get() suspended again", id),
                        ));
                    }
                }
                ObjState::Gone if !o.checked_gone => {
                    o.checked_gone = true;
                    if o.need_detach && o.detach != 1 {
                        // "discarded" (C06: objects held by or returned to a closed pool) means dropped *and* detached
                        let props: &'static [&'static str] = if closed { &["C09", "C03", "C04", "C06"] } else { &["C09", "C03", "C04"] };
                        msgs.push((
                            props,
                            "detach_count",
                            format!("obj{} was let go by the pool but Manager::detach was called {} times", id, o.detach),
                        ));
                    }
                }
                ObjState::Idle | ObjState::Held => {
                    if o.detach != 0 {
                        msgs.push((
                            &["C09"],
                            "detach_of_kept_object",
                            format!("obj{} is still in the pool ({:?}) but was detached {} times", id, o.state, o.detach),
                        ));
                    }
                }
                _ => {}
            }
        }
        for (p, o, m) in msgs {
            // a detach anomaly caused by resize/close is C09's (and C06/C07's) business
            self.viol(p, o, m);
        }
    }
}
