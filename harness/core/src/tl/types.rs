//! Types shared by the task-level (TL) engine.

use std::time::Duration;

#[derive(Clone, Copy, PartialEq, Eq, Debug, Hash)]
pub enum CallKind {
    Create,
    PostCreate(u8),
    PreRecycle(u8),
    Recycle,
    PostRecycle(u8),
    /// `W::from(Object)` at the very end of get()
    Wrap,
}

impl CallKind {
    pub fn name(self) -> String {
        match self {
            CallKind::Create => "create".into(),
            CallKind::PostCreate(i) => format!("post_create[{}]", i),
            CallKind::PreRecycle(i) => format!("pre_recycle[{}]", i),
            CallKind::Recycle => "recycle".into(),
            CallKind::PostRecycle(i) => format!("post_recycle[{}]", i),
            CallKind::Wrap => "wrap".into(),
        }
    }
    /// class name without the hook index (for coverage matrices)
    pub fn class(self) -> &'static str {
        match self {
            CallKind::Create => "create",
            CallKind::PostCreate(_) => "post_create",
            CallKind::PreRecycle(_) => "pre_recycle",
            CallKind::Recycle => "recycle",
            CallKind::PostRecycle(_) => "post_recycle",
            CallKind::Wrap => "wrap",
        }
    }
}

/// Decided outcome of a callback.
#[derive(Clone, Copy, PartialEq, Eq, Debug)]
pub enum Outcome {
    Ok,
    Err(u32),
    Panic(u32),
    /// the callback's future was dropped by the pool / the caller before it
    /// finished (timeout or abandonment)
    Dropped,
}

impl Outcome {
    pub fn name(self) -> String {
        match self {
            Outcome::Ok => "ok".into(),
            Outcome::Err(n) => format!("err#{}", n),
            Outcome::Panic(n) => format!("panic#{}", n),
            Outcome::Dropped => "dropped".into(),
        }
    }
    pub fn class(self) -> &'static str {
        match self {
            Outcome::Ok => "ok",
            Outcome::Err(_) => "err",
            Outcome::Panic(_) => "panic",
            Outcome::Dropped => "dropped",
        }
    }
}

/// What a callback is told to do when it starts.
#[derive(Clone, Copy, PartialEq, Eq, Debug)]
pub enum Plan {
    Now(Outcome),
    /// suspend until the director releases the gate
    Gate(usize),
}

/// Scripted decision for the n-th callback of a task (forced scenarios).
#[derive(Clone, Copy, PartialEq, Eq, Debug)]
pub enum Script {
    Ok,
    Err,
    Panic,
    /// suspend (async callbacks only; sync callbacks treat it as Ok)
    Gate,
}

#[derive(Clone, Copy, PartialEq, Eq, Debug)]
pub enum HookFlavor {
    Sync,
    Async,
}

#[derive(Clone, Copy, PartialEq, Eq, Debug)]
pub enum Mode {
    Fifo,
    Lifo,
}

#[derive(Clone, Debug)]
pub struct PoolCfg {
    pub max_size: usize,
    pub mode: Mode,
    pub post_create: Vec<HookFlavor>,
    pub pre_recycle: Vec<HookFlavor>,
    pub post_recycle: Vec<HookFlavor>,
    /// pool-level timeouts (need `runtime`)
    pub wait: Option<Duration>,
    pub create: Option<Duration>,
    pub recycle: Option<Duration>,
    pub runtime: bool,
}

impl PoolCfg {
    pub fn describe(&self) -> String {
        format!(
            "max_size={} mode={:?} hooks(post_create={:?},pre_recycle={:?},post_recycle={:?}) timeouts(wait={:?},create={:?},recycle={:?}) runtime={}",
            self.max_size, self.mode, self.post_create, self.pre_recycle, self.post_recycle, self.wait, self.create, self.recycle, self.runtime
        )
    }
}

/// Per-call timeouts of a get task (None => the pool's configured ones).
#[derive(Clone, Copy, Debug, PartialEq, Eq)]
pub struct CallTimeouts {
    pub wait: Option<Duration>,
    pub create: Option<Duration>,
    pub recycle: Option<Duration>,
}

#[derive(Clone, Copy, Debug, PartialEq, Eq)]
pub struct TaskKind {
    /// `get()` (pool timeouts) when None, `timeout_get(..)` otherwise
    pub per_call: Option<CallTimeouts>,
    /// enclosing `tokio::time::timeout`
    pub outer: Option<Duration>,
}

#[derive(Clone, Copy, PartialEq, Eq, Debug)]
pub enum Phase {
    NotPolled,
    /// polled at least once, no callback made yet: waiting for a slot
    Waiting,
    /// made at least one callback: holds a slot
    Admitted,
    Done,
}

#[derive(Clone, Copy, PartialEq, Eq, Debug)]
pub enum ObjState {
    /// inside a get() call of `task`
    InHand { task: usize },
    /// handed out, held by the director
    Held,
    /// the director is dropping the `Object` right now
    Returning,
    /// idle in the pool
    Idle,
    /// owned by the harness (taken, removed by retain)
    External,
    /// destructed
    Gone,
}

/// What the director is doing right now (attribution of callbacks).
#[derive(Clone, Copy, PartialEq, Eq, Debug)]
pub enum Op {
    /// nothing: any callback now is background work
    Idle,
    Build,
    Poll(usize),
    Abandon(usize),
    Return(u32),
    Take(u32),
    Retain,
    Resize(usize),
    Close,
    Status,
    DropExternal,
    DropPool,
    Advance,
}
