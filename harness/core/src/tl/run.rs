//! Random histories of the TL engine: profiles, the action loop, the
//! end-of-history settlement and capacity probe.

use std::sync::{Arc, Mutex};
use std::time::Duration;

use vh_common::{Hasher, Json, Rng, Violation};

use super::director::*;
use super::manager::lock;
use super::types::*;
use super::world::World;

#[derive(Clone, Debug)]
pub struct Profile {
    pub prop: &'static str,
    pub name: &'static str,
    pub max_lo: usize,
    pub max_hi: usize,
    pub max_tasks: usize,
    pub actions: usize,
    pub hooks_max: usize,
    pub p_err: u32,
    pub p_panic: u32,
    pub p_gate: u32,
    /// action weights
    pub w_start: u32,
    pub w_poll: u32,
    pub w_release: u32,
    pub w_abandon: u32,
    pub w_advance: u32,
    pub w_return: u32,
    pub w_take: u32,
    pub w_retain: u32,
    pub w_resize: u32,
    pub w_close: u32,
    pub w_dropext: u32,
    pub w_spurious: u32,
    /// pool-level timeouts + runtime in a share of the histories
    pub timeouts: bool,
    pub per_call: bool,
    pub outer: bool,
    pub pool_drop: bool,
}

impl Profile {
    pub fn base(prop: &'static str, name: &'static str) -> Profile {
        Profile {
            prop,
            name,
            max_lo: 0,
            max_hi: 4,
            max_tasks: 8,
            actions: 120,
            hooks_max: 2,
            p_err: 12,
            p_panic: 3,
            p_gate: 30,
            w_start: 30,
            w_poll: 40,
            w_release: 25,
            w_abandon: 6,
            w_advance: 4,
            w_return: 25,
            w_take: 4,
            w_retain: 4,
            w_resize: 0,
            w_close: 0,
            w_dropext: 2,
            w_spurious: 1,
            timeouts: true,
            per_call: true,
            outer: true,
            pool_drop: false,
        }
    }
}

pub fn profile_for(prop: &str) -> Profile {
    match prop {
        "C01" => Profile::base("C01", "limit"),
        "C02" => Profile {
            p_err: 20,
            p_panic: 6,
            w_abandon: 10,
            w_close: 1,
            w_resize: 4,
            ..Profile::base("C02", "capacity")
        },
        "C03" => Profile {
            w_abandon: 25,
            w_advance: 10,
            w_resize: 4,
            p_gate: 45,
            ..Profile::base("C03", "abandon")
        },
        "C04" => Profile {
            p_err: 25,
            p_panic: 5,
            w_retain: 0,
            w_take: 1,
            // a get() that is past admission moves on (next idle object, creation) whatever happens to the
            // pool meanwhile: close() while one of its callbacks is pending is part of the histories
            w_close: 2,
            ..Profile::base("C04", "protocol")
        },
        "C06" => Profile {
            w_close: 6,
            w_resize: 3,
            pool_drop: true,
            ..Profile::base("C06", "close")
        },
        "C07" => Profile {
            w_resize: 22,
            max_hi: 4,
            ..Profile::base("C07", "resize")
        },
        "C08" => Profile {
            max_lo: 1,
            max_hi: 6,
            w_retain: 8,
            w_resize: 4,
            p_gate: 15,
            w_abandon: 3,
            pool_drop: true,
            ..Profile::base("C08", "order")
        },
        "C09" => Profile {
            w_retain: 14,
            w_take: 12,
            w_resize: 10,
            w_close: 1,
            max_lo: 1,
            max_hi: 5,
            ..Profile::base("C09", "books")
        },
        "C10" => Profile {
            w_advance: 20,
            w_resize: 8,
            p_gate: 50,
            ..Profile::base("C10", "timeouts")
        },
        "C11" => Profile {
            w_resize: 8,
            w_close: 1,
            w_take: 6,
            w_retain: 6,
            w_abandon: 8,
            ..Profile::base("C11", "status")
        },
        "C13" => Profile {
            actions: 400,
            max_lo: 1,
            max_hi: 3,
            w_retain: 6,
            p_err: 15,
            ..Profile::base("C13", "metrics")
        },
        _ => Profile::base("C01", "limit"),
    }
}

/// The property-specific "non-trivial" rule (quoted in the evidence file's `rule`).
pub fn nontrivial_for(prop: &str, c: &std::collections::BTreeMap<String, u64>, flag: bool) -> bool {
    let has = |k: &str| c.get(k).copied().unwrap_or(0) > 0;
    let any = |pre: &str| c.iter().any(|(k, v)| k.starts_with(pre) && *v > 0);
    let fault = || c.iter().any(|(k, v)| *v > 0 && k.starts_with("outcome:") && !k.contains(":ok"));
    match prop {
        "C01" => has("admissions_at_limit_or_after_wait"),
        "C02" => (fault() || any("abandon:")) && has("quiescent_points_with_blocked_getters"),
        "C03" => any("abandon:") || any("c03cell:"),
        "C04" => fault(),
        "C06" => has("closes") && flag,
        "C07" => has("shrinks") && has("admissions"),
        "C08" => has("pops_with_choice"),
        "C09" => has("retain_partial") || has("takes"),
        "C10" => any("result:timeout") || has("result:no_runtime") || any("c10:class"),
        "C11" => has("status_exact_checks") && (has("quiescent_points_with_blocked_getters") || has("shrinks") || any("abandon:")),
        "C13" => has("reissues"),
        _ => flag,
    }
}

pub struct HistoryOut {
    pub violations: Vec<Violation>,
    pub foreign: usize,
    pub log: Vec<String>,
    pub hash: u64,
    pub sched: u64,
    pub states: std::collections::HashSet<u64>,
    pub counters: std::collections::BTreeMap<String, u64>,
    pub nontrivial: bool,
    pub events: u64,
    pub cfg: String,
}

fn gen_cfg(p: &Profile, rng: &mut Rng) -> PoolCfg {
    let hooks = |rng: &mut Rng| -> Vec<HookFlavor> {
        let n = rng.usize_below(p.hooks_max + 1);
        (0..n)
            .map(|_| if rng.chance(1, 2) { HookFlavor::Sync } else { HookFlavor::Async })
            .collect()
    };
    let runtime = p.timeouts && rng.chance(1, 2);
    // a zero create / recycle timeout is legal too: the step gets exactly one poll
    let dur = |rng: &mut Rng| if rng.chance(1, 10) { Duration::ZERO } else { Duration::from_millis(rng.range(1, 50) * 10) };
    let (wait, create, recycle) = if runtime && rng.chance(2, 3) {
        (
            match rng.below(5) {
                0 => Some(Duration::ZERO),
                1 | 2 => Some(dur(rng)),
                _ => None,
            },
            if rng.chance(1, 2) { Some(dur(rng)) } else { None },
            if rng.chance(1, 2) { Some(dur(rng)) } else { None },
        )
    } else {
        (None, None, None)
    };
    PoolCfg {
        max_size: rng.range(p.max_lo as u64, p.max_hi as u64) as usize,
        mode: if rng.chance(1, 2) { Mode::Fifo } else { Mode::Lifo },
        post_create: hooks(rng),
        pre_recycle: hooks(rng),
        post_recycle: hooks(rng),
        wait,
        create,
        recycle,
        runtime,
    }
}

fn gen_kind(p: &Profile, cfg: &PoolCfg, rng: &mut Rng) -> TaskKind {
    let dur = |rng: &mut Rng| match rng.below(10) {
        // "effectively unlimited"
        8 => Duration::MAX,
        9 => Duration::from_secs(u64::MAX / 4),
        0 => Duration::from_nanos(1),
        1 => Duration::from_micros(500),
        2 => Duration::from_micros(999),
        _ => Duration::from_millis(rng.range(1, 50) * 10),
    };
    let per_call = if p.per_call && rng.chance(1, 2) {
        // now and then a timeout is used although the pool has no runtime (=> NoRuntimeSpecified)
        let rt_ok = cfg.runtime || rng.chance(1, 8);
        let wait = match rng.below(6) {
            0 | 1 => Some(Duration::ZERO),
            2 if rt_ok => Some(dur(rng)),
            _ => None,
        };
        let (create, recycle) = if rt_ok && rng.chance(1, 3) {
            let dur0 = |rng: &mut Rng| if rng.chance(1, 6) { Duration::ZERO } else { dur(rng) };
            (
                if rng.chance(1, 2) { Some(dur0(rng)) } else { None },
                if rng.chance(1, 2) { Some(dur0(rng)) } else { None },
            )
        } else {
            (None, None)
        };
        Some(CallTimeouts { wait, create, recycle })
    } else {
        None
    };
    let outer = if p.outer && rng.chance(1, 5) { Some(dur(rng)) } else { None };
    TaskKind { per_call, outer }
}

pub const NB: TaskKind = TaskKind {
    per_call: Some(CallTimeouts {
        wait: Some(Duration::ZERO),
        create: None,
        recycle: None,
    }),
    outer: None,
};

pub fn new_runtime() -> tokio::runtime::Runtime {
    tokio::runtime::Builder::new_current_thread()
        .enable_time()
        .start_paused(true)
        .build()
        .expect("tokio runtime")
}

/// Runs one random history.
pub fn run_history(rt: &tokio::runtime::Runtime, p: &Profile, seed: u64, idx: u64, keep_log: bool) -> HistoryOut {
    let mut rng = Rng::derive(seed, vh_common::fnv1a(p.prop.as_bytes()), idx);
    let cfg = gen_cfg(p, &mut rng);
    let cfg_desc = cfg.describe();
    let mut world = World::new(p.prop, cfg, Rng::new(rng.next_u64()));
    world.p_err = p.p_err;
    world.p_panic = p.p_panic;
    world.p_gate = p.p_gate;
    world.p_wrap_panic = (p.p_panic / 2).max(1);
    world.keep_log = keep_log;
    world.ev(format!("history {} of profile {} seed {}: {}", idx, p.name, seed, cfg_desc));
    let w = Arc::new(Mutex::new(world));
    rt.block_on(async {
        let pool = match build_pool(&w) {
            Ok(p) => p,
            Err(e) => {
                lock(&w).viol(&["*"], "harness_build", format!("pool did not build: {}", e));
                return;
            }
        };
        {
            let mut wl = lock(&w);
            if wl.callbacks != 0 {
                wl.viol(&["C08"], "build_called_manager", "building the pool invoked the manager or a hook".into());
            }
            wl.op = Op::Idle;
        }
        let mut d = Director::new(w.clone(), pool);
        d.sample_status();
        // one history in eight starts from the "late surplus" state (creations in flight during a shrink while an
        // idle object is present): several rules only apply there, and random actions reach it rarely
        if p.w_resize > 0 && rng.chance(1, 8) {
            late_surplus_prefix(&mut d, &mut rng);
        }
        drive(&mut d, p, &mut rng).await;
        if !d.world().stop() {
            settle_and_probe(&mut d, p, &mut rng).await;
        }
        // teardown without oracles interfering: the world keeps logging
        lock(&w).op = Op::DropPool;
        lock(&w).pool_dropped = true;
        lock(&w).teardown = true;
        let Director { tasks, held, external, pool, clones, sched, states, .. } = d;
        let _ = std::panic::catch_unwind(std::panic::AssertUnwindSafe(move || {
            drop(tasks);
            drop(held);
            drop(pool);
            drop(clones);
            drop(external);
        }));
        let mut wl = lock(&w);
        wl.counters.insert("sched_hash".into(), sched.0);
        wl.counters.insert("states_seen".into(), states.len() as u64);
        STATES.with(|s| *s.borrow_mut() = states);
    });
    let mut wl = lock(&w);
    let h = Hasher(wl.log_hash.0);
    let sched = wl.counters.remove("sched_hash").unwrap_or(0);
    let _ = wl.counters.remove("states_seen");
    HistoryOut {
        violations: std::mem::take(&mut wl.violations),
        foreign: wl.foreign.len(),
        log: std::mem::take(&mut wl.log),
        hash: h.0,
        sched,
        states: STATES.with(|s| std::mem::take(&mut *s.borrow_mut())),
        nontrivial: nontrivial_for(p.prop, &wl.counters, wl.nontrivial),
        counters: std::mem::take(&mut wl.counters),
        events: wl.callbacks + wl.action_no,
        cfg: cfg_desc,
    }
}

/// Brings the pool into the state "more objects than max_size, one of them idle": an object is out, the other
/// slots are taken by gets parked inside `create()`, the object comes back, the pool is shrunk, the creations
/// finish. What follows (returns, resizes to the same / a neighbouring size, retains ...) is left to the random drive.
fn late_surplus_prefix(d: &mut Director, rng: &mut Rng) {
    let m = d.world().cfg.max_size;
    if m < 2 {
        return;
    }
    d.world().ev("-- directed prefix: late surplus".into());
    d.world().bump("late_surplus_prefixes");
    let kind = TaskKind { per_call: None, outer: None };
    let _ = d.start_task(kind, vec![Script::Ok; 8]);
    if d.held.is_empty() {
        return;
    }
    let parked = rng.range(1, (m - 1) as u64) as usize;
    for _ in 0..parked {
        let _ = d.start_task(kind, vec![Script::Gate]);
    }
    if d.world().stop() || d.held.is_empty() {
        return;
    }
    d.return_obj(0);
    let n = rng.range(1, (m - 1) as u64) as usize;
    d.resize(n);
    let gates = d.world().open_gates();
    for g in gates {
        d.release(g, Script::Ok);
    }
    for t in d.ready_tasks() {
        d.poll_task(t, format!("poll t{}", t));
    }
}

thread_local! {
    static STATES: std::cell::RefCell<std::collections::HashSet<u64>> = Default::default();
}

pub async fn drive_n(d: &mut Director, p: &Profile, rng: &mut Rng) {
    drive(d, p, rng).await
}

async fn drive(d: &mut Director, p: &Profile, rng: &mut Rng) {
    d.allow_unpolled_drop = true;
    drive_inner(d, p, rng).await;
    d.allow_unpolled_drop = false;
}

async fn drive_inner(d: &mut Director, p: &Profile, rng: &mut Rng) {
    let n_actions = rng.range((p.actions / 4) as u64, p.actions as u64) as usize;
    for _ in 0..n_actions {
        if d.world().stop() {
            return;
        }
        let ready = d.ready_tasks();
        let live = d.live_tasks();
        let gates = d.world().open_gates();
        let closed_or_gone = d.pool.is_none();
        let weights = [
            if live.len() < p.max_tasks && !closed_or_gone { p.w_start } else { 0 },
            if !ready.is_empty() { p.w_poll } else { 0 },
            if !gates.is_empty() { p.w_release } else { 0 },
            if !live.is_empty() { p.w_abandon } else { 0 },
            p.w_advance,
            if !d.held.is_empty() { p.w_return } else { 0 },
            if !d.held.is_empty() { p.w_take } else { 0 },
            p.w_retain,
            p.w_resize,
            p.w_close,
            if !d.external.is_empty() { p.w_dropext } else { 0 },
            if !live.is_empty() { p.w_spurious } else { 0 },
        ];
        if weights.iter().all(|w| *w == 0) {
            break;
        }
        match rng.weighted(&weights) {
            0 => {
                let cfg = d.world().cfg.clone();
                let kind = gen_kind(p, &cfg, rng);
                let _ = d.start_task(kind, Vec::new());
            }
            1 => {
                let t = *rng.pick(&ready);
                d.poll_task(t, format!("poll t{}", t));
            }
            2 => {
                let g = *rng.pick(&gates);
                let s = match rng.below(100) as u32 {
                    x if x < p.p_err + 5 => Script::Err,
                    x if x < p.p_err + 5 + p.p_panic => Script::Panic,
                    _ => Script::Ok,
                };
                d.release(g, s);
            }
            3 => {
                let t = *rng.pick(&live);
                d.abandon(t);
            }
            4 => {
                let ms = *rng.pick(&[1u64, 10, 10, 50, 100, 250, 500, 1000]);
                d.advance(Duration::from_millis(ms)).await;
            }
            5 => {
                let i = rng.usize_below(d.held.len());
                d.return_obj(i);
            }
            6 => {
                let i = rng.usize_below(d.held.len());
                d.take_obj(i);
            }
            7 => {
                let pr = random_pred(rng);
                d.retain(pr);
            }
            8 => {
                let cur = d.world().max_size_now;
                // any size, but the neighbourhood of the current one (and the current one itself: a resize
                // that changes nothing still has to trim a late surplus) gets a share of its own
                let n = match rng.below(8) {
                    0 | 1 => cur,
                    2 => cur.saturating_sub(1),
                    3 => cur + 1,
                    _ => rng.usize_below(cur + 3),
                };
                // a closed pool ignores resize() whatever the argument: "unbounded" and the values around the
                // semaphore's permit limit included (on an open pool those are not legal sizes)
                let closed = d.world().closed;
                let n = if closed && rng.chance(1, 2) { *rng.pick(&[usize::MAX, usize::MAX >> 3, (usize::MAX >> 3) + 1, usize::MAX >> 1, 1usize << 32, 65_536]) } else { n };
                d.resize(n);
            }
            9 => d.close(),
            10 => {
                let i = rng.usize_below(d.external.len());
                d.drop_external(i);
            }
            _ => {
                // spurious poll of a task nobody woke: legal for any future
                let t = *rng.pick(&live);
                d.poll_task(t, format!("spurious poll t{}", t));
            }
        }
        if d.quiescent() {
            d.check_quiescence();
        }
    }
}

/// Brings the history to rest and probes the capacity through the public API.
pub async fn settle_and_probe(d: &mut Director, p: &Profile, rng: &mut Rng) {
    d.world().ev("-- settle".into());
    let mut guard = 0;
    loop {
        guard += 1;
        if d.world().stop() || guard > 2000 {
            return;
        }
        let ready = d.ready_tasks();
        if !ready.is_empty() {
            let t = *rng.pick(&ready);
            d.poll_task(t, format!("poll t{}", t));
            continue;
        }
        d.check_quiescence();
        if d.world().stop() {
            return;
        }
        let gates = d.world().open_gates();
        if !gates.is_empty() {
            let g = *rng.pick(&gates);
            if rng.chance(1, 6) {
                let t = d.world().gates[g].task;
                d.abandon(t);
            } else {
                d.release(g, Script::Ok);
            }
            continue;
        }
        if !d.held.is_empty() {
            let i = rng.usize_below(d.held.len());
            if p.w_take > 0 && rng.chance(1, 5) {
                d.take_obj(i);
            } else {
                d.return_obj(i);
            }
            continue;
        }
        let live = d.live_tasks();
        if live.is_empty() {
            break;
        }
        // blocked getters with nothing outstanding: only legitimate when the
        // capacity is zero (the quiescence oracle has judged it already)
        d.abandon(live[0]);
    }
    // ---- capacity probe
    d.world().ev("-- probe".into());
    d.world().probe_mode = true;
    let (n, closed) = {
        let w = d.world();
        (w.max_size_now, w.closed)
    };
    let props = d.world().capacity_props();
    for i in 0..n {
        let t = d.start_task(NB, Vec::new());
        let res = d.world().tasks[t].result.clone().unwrap_or_else(|| "pending".into());
        if !res.starts_with("ok:") {
            d.world().viol(
                &props,
                "capacity_probe",
                format!("with everything returned, non-blocking get {} of {} (max_size) ended with {}", i + 1, n, res),
            );
            if d.tasks[t].fut.is_some() {
                d.abandon(t);
            }
            return;
        }
    }
    let t = d.start_task(NB, Vec::new());
    let res = d.world().tasks[t].result.clone().unwrap_or_else(|| "pending".into());
    let want = if closed { "err:Closed" } else { "err:Timeout(Wait)" };
    if res != want {
        let mut pr = props.clone();
        pr.push("C01");
        d.world().viol(
            &pr,
            "capacity_probe_extra",
            format!("get number max_size+1={} ended with {} (expected {})", n + 1, res, want),
        );
        if d.tasks[t].fut.is_some() {
            d.abandon(t);
        }
        return;
    }
    d.world().bump("capacity_probes");
    // ---- optionally let objects outlive the pool
    if p.pool_drop && rng.chance(1, 2) && d.live_tasks().is_empty() {
        // some objects idle, some still held when the last handle goes away
        while !d.held.is_empty() && rng.chance(1, 2) {
            let i = rng.usize_below(d.held.len());
            d.return_obj(i);
        }
        d.drop_pool();
        while !d.held.is_empty() {
            let i = rng.usize_below(d.held.len());
            if rng.chance(1, 2) {
                d.take_obj(i);
            } else {
                d.return_obj(i);
            }
        }
        d.world().bump("objects_outlived_pool");
    } else {
        while !d.held.is_empty() {
            d.return_obj(0);
        }
    }
    // ---- nothing happens in the background
    let before = d.world().callbacks;
    d.world().op = Op::Idle;
    tokio::time::advance(Duration::from_secs(3600)).await;
    let after = d.world().callbacks;
    if before != after {
        d.world().viol(&["C08"], "background_work", format!("{} callbacks happened while the pool was left alone for an hour", after - before));
    }
}

pub fn case_json(engine: &str, prop: &str, seed: u64, idx: u64, out: &HistoryOut, max_lines: usize) -> Json {
    let mut lines: Vec<Json> = out.log.iter().take(max_lines).map(|s| Json::from(s.as_str())).collect();
    if out.log.len() > max_lines {
        lines.push(Json::from(format!("... {} more lines", out.log.len() - max_lines)));
    }
    Json::obj()
        .with("engine", engine)
        .with("profile_prop", prop)
        .with("seed", seed)
        .with("index", idx)
        .with("config", out.cfg.as_str())
        .with("log", Json::Arr(lines))
}

pub fn history_json(p: &Profile, seed: u64, idx: u64, out: &HistoryOut, max_lines: usize) -> Json {
    let mut lines: Vec<Json> = out.log.iter().take(max_lines).map(|s| Json::from(s.as_str())).collect();
    if out.log.len() > max_lines {
        lines.push(Json::from(format!("... {} more lines", out.log.len() - max_lines)));
    }
    Json::obj()
        .with("engine", "tl")
        .with("profile", p.name)
        .with("profile_prop", p.prop)
        .with("seed", seed)
        .with("index", idx)
        .with("config", out.cfg.as_str())
        .with("log", Json::Arr(lines))
}
