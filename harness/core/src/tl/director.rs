//! The director: owns the real pool, the real `get()` futures and polls them
//! by hand. Every synchronous pool call is made from here, between polls.

use std::future::Future;
use std::panic::{catch_unwind, AssertUnwindSafe};
use std::pin::Pin;
use std::sync::atomic::{AtomicBool, Ordering};
use std::sync::Arc;
use std::task::{Context, Poll, Wake, Waker};
use std::time::Duration;

use deadpool::managed::{Hook, Object, Pool, PoolError, QueueMode, Timeouts, TimeoutType};
use deadpool::{Runtime, Status};
use vh_common::{panic_message, InjectedPanic, Rng};

use super::manager::*;
use super::types::*;
use super::world::*;

pub type MObject = Object<ScriptedManager>;
pub type MPool = Pool<ScriptedManager, Wrapped>;

/// Custom wrapper type: its `From<Object>` conversion runs inside get() and may panic.
pub struct Wrapped(pub MObject);

impl From<MObject> for Wrapped {
    fn from(o: MObject) -> Self {
        let w = o.world();
        let m = *Object::metrics(&o);
        let plan = lock(&w).begin_wrap(o.id, &m);
        if let Some(n) = plan {
            std::panic::panic_any(InjectedPanic(n));
        }
        Wrapped(o)
    }
}

pub enum Res {
    Got(MObject),
    Err(PoolError<ErrNo>),
    OuterElapsed,
}

pub struct Flag(pub AtomicBool);
impl Wake for Flag {
    fn wake(self: Arc<Self>) {
        self.0.store(true, Ordering::SeqCst);
    }
    fn wake_by_ref(self: &Arc<Self>) {
        self.0.store(true, Ordering::SeqCst);
    }
}

pub struct Task {
    pub fut: Option<Pin<Box<dyn Future<Output = Res>>>>,
    pub flag: Arc<Flag>,
}

#[derive(Clone, Copy, Debug)]
pub enum Pred {
    All(bool),
    Mask(u64),
    EveryOther(bool),
    FirstK(usize),
    RcOdd,
}

pub struct Director {
    pub w: W,
    pub pool: Option<MPool>,
    pub clones: Vec<MPool>,
    /// handles obtained through `Object::pool()` (they hand out plain `Object`s)
    pub obj_handles: Vec<Pool<ScriptedManager>>,
    /// random drive only: a call that was made eagerly may be given up before its first poll
    pub allow_unpolled_drop: bool,
    pub tasks: Vec<Task>,
    pub held: Vec<MObject>,
    pub external: Vec<Obj>,
    pub sched: vh_common::Hasher,
    pub states: std::collections::HashSet<u64>,
}

/// The future of one `pool.timeout_get(&timeouts)` call together with the pool handle and the timeouts it
/// borrows (the call is made when this value is built, not when it is first polled).
struct EagerGet {
    // declared first: dropped before the two boxes it points into
    fut: Option<Pin<Box<dyn Future<Output = Result<Wrapped, PoolError<ErrNo>>>>>>,
    _pool: Box<MPool>,
    _timeouts: Box<Timeouts>,
}

impl EagerGet {
    fn new(pool: MPool, timeouts: Timeouts) -> EagerGet {
        let pool = Box::new(pool);
        let timeouts = Box::new(timeouts);
        // SAFETY: both boxes live exactly as long as `fut` (same struct, `fut` is dropped first, the boxes are
        // never moved out of or replaced), and a Box's contents do not move when the Box does.
        let (p, t): (&'static MPool, &'static Timeouts) = unsafe { (&*(pool.as_ref() as *const MPool), &*(timeouts.as_ref() as *const Timeouts)) };
        EagerGet { fut: Some(Box::pin(p.timeout_get(t))), _pool: pool, _timeouts: timeouts }
    }
}

impl Future for EagerGet {
    type Output = Result<Wrapped, PoolError<ErrNo>>;
    fn poll(mut self: Pin<&mut Self>, cx: &mut std::task::Context<'_>) -> std::task::Poll<Self::Output> {
        let r = self.fut.as_mut().expect("polled after completion").as_mut().poll(cx);
        if r.is_ready() {
            self.fut = None;
        }
        r
    }
}

pub fn build_pool(w: &W) -> Result<MPool, String> {
    let cfg = lock(w).cfg.clone();
    // The same configuration reaches the builder in one of several ways: single setters in different orders
    // (some called twice, the first time with a value that must not survive), `timeouts()`, or a whole
    // `PoolConfig` through `config()`. Which way is a function of the configuration itself (replays agree).
    let qm = match cfg.mode {
        Mode::Fifo => QueueMode::Fifo,
        Mode::Lifo => QueueMode::Lifo,
    };
    let way = vh_common::fnv1a(cfg.describe().as_bytes()) % 7;
    let decoy = Some(std::time::Duration::from_secs(12345));
    let ts = Timeouts { wait: cfg.wait, create: cfg.create, recycle: cfg.recycle };
    let b0 = Pool::<ScriptedManager, Wrapped>::builder(ScriptedManager { w: w.clone() });
    let mut b = match way {
        0 => b0.max_size(cfg.max_size).queue_mode(qm).wait_timeout(cfg.wait).create_timeout(cfg.create).recycle_timeout(cfg.recycle),
        1 => b0.recycle_timeout(cfg.recycle).create_timeout(cfg.create).wait_timeout(cfg.wait).queue_mode(qm).max_size(cfg.max_size),
        2 => b0.queue_mode(qm).create_timeout(cfg.create).max_size(cfg.max_size).recycle_timeout(cfg.recycle).wait_timeout(cfg.wait),
        3 => b0.wait_timeout(decoy).create_timeout(decoy).recycle_timeout(decoy).max_size(cfg.max_size + 3).max_size(cfg.max_size).queue_mode(qm).timeouts(ts),
        4 => b0.config(deadpool::managed::PoolConfig { max_size: cfg.max_size, timeouts: ts, queue_mode: qm }),
        5 => b0.config(deadpool::managed::PoolConfig { max_size: cfg.max_size + 1, timeouts: Timeouts { wait: decoy, create: decoy, recycle: decoy }, queue_mode: qm })
            .recycle_timeout(cfg.recycle)
            .wait_timeout(cfg.wait)
            .create_timeout(cfg.create)
            .max_size(cfg.max_size),
        _ => b0.timeouts(ts).queue_mode(qm).max_size(cfg.max_size).wait_timeout(cfg.wait),
    };
    if cfg.runtime {
        b = b.runtime(Runtime::Tokio1);
    }
    for (i, f) in cfg.post_create.iter().enumerate() {
        let h: Hook<ScriptedManager> = make_hook(w, CallKind::PostCreate(i as u8), *f);
        b = b.post_create(h);
    }
    for (i, f) in cfg.pre_recycle.iter().enumerate() {
        b = b.pre_recycle(make_hook(w, CallKind::PreRecycle(i as u8), *f));
    }
    for (i, f) in cfg.post_recycle.iter().enumerate() {
        b = b.post_recycle(make_hook(w, CallKind::PostRecycle(i as u8), *f));
    }
    b.build().map_err(|e| format!("{:?}", e))
}

impl Director {
    pub fn new(w: W, pool: MPool) -> Director {
        // the built pool says what it was configured with
        {
            let (t, st, closed) = (pool.timeouts(), pool.status(), pool.is_closed());
            let mut wl = lock(&w);
            let cfg = wl.cfg.clone();
            if t.wait != cfg.wait || t.create != cfg.create || t.recycle != cfg.recycle {
                wl.viol(&["C10", "*"], "timeouts_accessor", format!("pool built with wait={:?} create={:?} recycle={:?} but timeouts() says {:?}", cfg.wait, cfg.create, cfg.recycle, t));
            }
            if st.max_size != cfg.max_size || st.size != 0 || st.available != 0 || st.waiting != 0 || closed {
                wl.viol(&["C11", "C08", "*"], "fresh_pool_status", format!("freshly built pool (max_size {}) reports {:?}, closed={}", cfg.max_size, st, closed));
            }
        }
        Director {
            w,
            pool: Some(pool),
            clones: Vec::new(),
            obj_handles: Vec::new(),
            allow_unpolled_drop: false,
            tasks: Vec::new(),
            held: Vec::new(),
            external: Vec::new(),
            sched: Default::default(),
            states: Default::default(),
        }
    }

    pub fn world(&self) -> std::sync::MutexGuard<'_, World> {
        lock(&self.w)
    }

    fn begin(&mut self, op: Op, what: String) {
        let mut w = self.world();
        w.action_no += 1;
        w.op = op;
        w.ev(what);
    }

    fn end(&mut self) {
        let mut w = self.world();
        w.op = Op::Idle;
        w.sweep();
        drop(w);
        self.sample_status();
    }

    pub fn ready_tasks(&self) -> Vec<usize> {
        (0..self.tasks.len())
            .filter(|t| self.tasks[*t].fut.is_some() && self.tasks[*t].flag.0.load(Ordering::SeqCst))
            .collect()
    }
    pub fn live_tasks(&self) -> Vec<usize> {
        (0..self.tasks.len()).filter(|t| self.tasks[*t].fut.is_some()).collect()
    }
    pub fn quiescent(&self) -> bool {
        self.ready_tasks().is_empty()
    }

    // ---------------------------------------------------------------- tasks

    pub fn start_task(&mut self, kind: TaskKind, script: Vec<Script>) -> usize {
        let pool = self.pool.as_ref().expect("pool alive").clone();
        let cfg = self.world().cfg.clone();
        let eff = match kind.per_call {
            None => CallTimeouts {
                wait: cfg.wait,
                create: cfg.create,
                recycle: cfg.recycle,
            },
            Some(t) => t,
        };
        let t = self.tasks.len();
        {
            let mut w = self.world();
            let free = w.free_capacity();
            let closed = w.closed;
            w.tasks.push(TaskInfo {
                kind,
                eff,
                phase: Phase::NotPolled,
                started_at: None,
                std_created: std::time::Instant::now(),
                call_started_at: None,
                last_fail: None,
                script: script.into(),
                calls: 0,
                pending_polls: 0,
                had_to_wait: false,
                result: None,
                free_at_start: free,
                closed_at_start: closed,
            });
        }
        // every third call goes through a handle that was obtained from an object (`Object::pool()`), if there
        // is one: the same pool, whatever handle is used
        let via = if t % 3 == 2 { self.obj_handles.get(t % 2).or(self.obj_handles.first()).cloned() } else { None };
        if via.is_some() {
            let mut w = self.world();
            w.bump("gets_through_object_handle");
        }
        // A call with per-call timeouts is sometimes *made* right here, i.e. the future `timeout_get()` returns
        // exists from now on although nobody has polled it yet (a prepared future, a `select!` branch that loses).
        let probing = self.world().probe_mode;
        let eager: Option<EagerGet> = match (kind.per_call, &via) {
            (Some(ct), None) if t % 4 == 1 && !probing => {
                let mut w = self.world();
                w.bump("gets_made_before_first_poll");
                drop(w);
                Some(EagerGet::new(pool.clone(), Timeouts { wait: ct.wait, create: ct.create, recycle: ct.recycle }))
            }
            _ => None,
        };
        let made_eagerly = eager.is_some();
        let fut: Pin<Box<dyn Future<Output = Res>>> = Box::pin(async move {
            let inner = async {
                if let Some(e) = eager {
                    return e.await;
                }
                match (kind.per_call, via) {
                    (None, None) => pool.get().await,
                    (None, Some(h)) => h.get().await.map(Wrapped::from),
                    (Some(ct), via) => {
                        let ts = Timeouts {
                            wait: ct.wait,
                            create: ct.create,
                            recycle: ct.recycle,
                        };
                        match via {
                            None => pool.timeout_get(&ts).await,
                            Some(h) => h.timeout_get(&ts).await.map(Wrapped::from),
                        }
                    }
                }
            };
            let r = match kind.outer {
                None => Ok(inner.await),
                Some(d) => tokio::time::timeout(d, inner).await,
            };
            match r {
                Ok(Ok(o)) => Res::Got(o.0),
                Ok(Err(e)) => Res::Err(e),
                Err(_) => Res::OuterElapsed,
            }
        });
        self.tasks.push(Task {
            fut: Some(fut),
            flag: Arc::new(Flag(AtomicBool::new(false))),
        });
        self.sched.str("S");
        if made_eagerly && self.allow_unpolled_drop && t % 8 == 1 {
            // the call was made, the future is given up without ever being polled
            let mut w = self.world();
            w.ev(format!("t{} {:?}: timeout_get() called, future never polled", t, kind));
            drop(w);
            self.abandon(t);
            return t;
        }
        self.poll_task(t, format!("start t{} {:?}", t, kind));
        t
    }

    /// Polls task `t` once.
    pub fn poll_task(&mut self, t: usize, what: String) {
        if self.tasks[t].fut.is_none() {
            return;
        }
        self.sched.str("P");
        self.sched.u64(t as u64);
        // figures needed to judge the result, taken before the poll
        let (free_before, closed_before, phase_before) = {
            let w = self.world();
            (w.free_capacity(), w.closed, w.tasks[t].phase)
        };
        let woken_waiters = (0..self.tasks.len())
            .filter(|x| *x != t && self.tasks[*x].fut.is_some() && self.tasks[*x].flag.0.load(Ordering::SeqCst))
            .filter(|x| self.world().tasks[*x].phase == Phase::Waiting)
            .count() as i64;
        self.begin(Op::Poll(t), what);
        {
            let mut w = self.world();
            if w.tasks[t].started_at.is_none() {
                w.tasks[t].started_at = Some(tokio::time::Instant::now());
            }
        }
        self.tasks[t].flag.0.store(false, Ordering::SeqCst);
        let waker = Waker::from(self.tasks[t].flag.clone());
        let mut cx = Context::from_waker(&waker);
        let mut fut = self.tasks[t].fut.take().unwrap();
        let r = catch_unwind(AssertUnwindSafe(|| fut.as_mut().poll(&mut cx)));
        match r {
            Ok(Poll::Pending) => {
                self.tasks[t].fut = Some(fut);
                let mut w = self.world();
                w.tasks[t].pending_polls += 1;
                if w.tasks[t].phase == Phase::NotPolled {
                    w.tasks[t].phase = Phase::Waiting;
                }
                if w.tasks[t].phase == Phase::Waiting {
                    w.tasks[t].had_to_wait = true;
                    w.bump("pending_while_waiting_for_slot");
                    if w.tasks[t].eff.wait == Some(Duration::ZERO) {
                        w.viol(
                            &["C10"],
                            "zero_wait_pending",
                            format!("task {} uses a zero wait timeout but its get() suspended while waiting for a slot", t),
                        );
                    }
                }
                let ph = w.tasks[t].phase;
                w.ev(format!("  t{} -> Pending ({:?})", t, ph));
            }
            Ok(Poll::Ready(res)) => {
                // drop the finished future first (it holds nothing any more)
                let _ = catch_unwind(AssertUnwindSafe(move || drop(fut)));
                self.task_done(t, res, free_before, closed_before, phase_before, woken_waiters);
            }
            Err(p) => {
                let inj = p.downcast_ref::<InjectedPanic>().map(|i| i.0);
                let msg = panic_message(&*p);
                let dr = catch_unwind(AssertUnwindSafe(move || drop(fut)));
                let mut w = self.world();
                w.ev(format!("  t{} -> PANIC {}", t, msg));
                match (inj, w.tasks[t].last_fail) {
                    (Some(n), Some((_, Outcome::Panic(m)))) if n == m => {
                        w.bump("injected_panics_propagated");
                    }
                    _ => {
                        w.viol(&["C02", "*"], "get_panicked", format!("get() of task {} panicked: {}", t, msg));
                    }
                }
                if dr.is_err() {
                    w.viol(&["C02", "*"], "drop_after_panic_panicked", format!("dropping the future of task {} after a panic panicked again", t));
                }
                w.tasks[t].phase = Phase::Done;
                w.tasks[t].result = Some(format!("panic:{}", msg));
                w.did_abandon = true;
                // a panicking wrapper conversion sends the finished object straight back to the pool
                if let Some(id) = w.wrap_returned.take() {
                    if w.objs[id as usize].state == ObjState::Returning {
                        if w.closed {
                            w.viol(&["C06"], "kept_after_close", format!("obj{} returned to a closed pool was kept", id));
                        }
                        w.objs[id as usize].state = ObjState::Idle;
                        w.ref_idle.push_back(id);
                        if w.live() > w.max_size_now && !w.closed {
                            let (l, mx) = (w.live(), w.max_size_now);
                            w.viol(&["C07"], "surplus_kept", format!("obj{} was kept on return although {} objects exist and max_size is {}", id, l, mx));
                        }
                    }
                }
            }
        }
        self.end();
    }

    fn task_done(&mut self, t: usize, res: Res, free_before: i64, closed_before: bool, phase_before: Phase, woken_waiters: i64) {
        let now = tokio::time::Instant::now();
        match res {
            Res::Got(obj) => {
                let id = obj.id;
                let m = *Object::metrics(&obj);
                if self.obj_handles.len() < 2 && (id as usize + t) % 4 == 0 {
                    if let Some(h) = Object::pool(&obj) {
                        self.obj_handles.push(h);
                    }
                }
                let mut w = self.world();
                w.ev(format!("  t{} -> Ok(obj{}) rc={}", t, id, m.recycle_count));
                w.tasks[t].phase = Phase::Done;
                w.tasks[t].result = Some(format!("ok:obj{}", id));
                let st = w.objs[id as usize].state;
                if st != (ObjState::InHand { task: t }) {
                    w.viol(
                        &["C04", "C01"],
                        "handout_of_foreign_object",
                        format!("get() of task {} returned obj{} which is in state {:?}", t, id, st),
                    );
                } else if !w.obj_ready(id) {
                    let o = &w.objs[id as usize];
                    let (ns, d, ic) = (o.next_step, o.doomed, o.in_call);
                    w.viol(
                        &["C04"],
                        "handout_unverified",
                        format!("obj{} handed out after {} verified steps (failed step: {}, step in progress: {})", id, ns, d, ic),
                    );
                }
                if w.tasks[t].calls == 0 {
                    w.viol(&["C04"], "handout_without_callback", format!("task {} got obj{} without any manager call", t, id));
                }
                let o = &mut w.objs[id as usize];
                o.state = ObjState::Held;
                o.handouts += 1;
                let handouts = o.handouts;
                // metrics oracle (C13)
                let want = (handouts - 1) as usize;
                if m.recycle_count != want {
                    w.viol(
                        &["C13"],
                        "recycle_count",
                        format!("obj{} handed out for the {}. time reports recycle_count {}", id, handouts, m.recycle_count),
                    );
                }
                let o = &w.objs[id as usize];
                if let Some(c) = o.m_created {
                    if c != m.created {
                        w.viol(&["C13"], "created_changed", format!("created instant of obj{} changed", id));
                    }
                }
                let o = &w.objs[id as usize];
                if handouts == 1 {
                    if m.recycled.is_some() {
                        w.viol(&["C13"], "recycled_before_reuse", format!("obj{} reports a last-recycled instant on its first hand-out", id));
                    }
                } else {
                    match (m.recycled, o.m_recycled) {
                        (None, _) => w.viol(&["C13"], "recycled_missing", format!("obj{} re-issued but recycled is None", id)),
                        (Some(r), prev) => {
                            if r < m.created || prev.map(|p| r < p).unwrap_or(false) {
                                w.viol(&["C13"], "recycled_backwards", format!("last-recycled instant of obj{} moved backwards", id));
                            } else if r < w.tasks[t].std_created {
                                // the recycle of this very hand-out happened inside this get() call
                                let older = w.tasks[t].std_created.duration_since(r);
                                w.viol(
                                    &["C13"],
                                    "recycled_stale",
                                    format!("obj{} handed out for the {}. time reports a last-recycled instant {:?} older than the get() call that recycled it", id, handouts, older),
                                );
                            }
                        }
                    }
                }
                // the accessors say what the fields say
                {
                    let t0 = std::time::Instant::now();
                    let (age, last_used) = (m.age(), m.last_used());
                    let t1 = std::time::Instant::now();
                    let base = m.recycled.unwrap_or(m.created);
                    if age < t0.saturating_duration_since(m.created) || age > t1.saturating_duration_since(m.created) {
                        w.viol(&["C13"], "age_accessor", format!("obj{}: age() = {:?} but it was created between {:?} and {:?} ago", id, age, t0.saturating_duration_since(m.created), t1.saturating_duration_since(m.created)));
                    }
                    if last_used < t0.saturating_duration_since(base) || last_used > t1.saturating_duration_since(base) {
                        w.viol(&["C13"], "last_used_accessor", format!("obj{}: last_used() = {:?} but it was last recycled (or created) between {:?} and {:?} ago", id, last_used, t0.saturating_duration_since(base), t1.saturating_duration_since(base)));
                    }
                }
                let o = &mut w.objs[id as usize];
                o.m_created = Some(m.created);
                o.m_recycled = m.recycled;
                if handouts > 1 {
                    w.bump("reissues");
                }
                w.bump("handouts");
                let held = w.held();
                if !w.resized && held > w.max_size_now {
                    let m = w.max_size_now;
                    w.viol(&["C01"], "held_over_limit", format!("{} objects are held by callers, max_size is {}", held, m));
                }
                drop(w);
                self.held.push(obj);
            }
            Res::OuterElapsed => {
                let mut w = self.world();
                w.ev(format!("  t{} -> outer timeout elapsed", t));
                let ok = match (w.tasks[t].kind.outer, w.tasks[t].started_at) {
                    (Some(d), Some(s)) => s.checked_add(d).map(|dl| now >= dl).unwrap_or(false),
                    _ => false,
                };
                if !ok {
                    w.viol(&["*"], "harness_outer_timeout", "outer timeout fired early (harness problem)".into());
                }
                let point = match phase_before {
                    Phase::Admitted => "in_callback",
                    _ => "wait_for_slot",
                };
                w.bump(&format!("abandon:outer_timeout:{}", point));
                w.tasks[t].phase = Phase::Done;
                w.tasks[t].result = Some("outer-timeout".into());
                w.did_abandon = true;
            }
            Res::Err(e) => {
                let mut w = self.world();
                let desc = format!("{:?}", e);
                w.ev(format!("  t{} -> Err({})", t, desc));
                let ti = &w.tasks[t];
                let (phase, last, eff, started, call_started) = (ti.phase, ti.last_fail, ti.eff, ti.started_at, ti.call_started_at);
                let runtime = w.cfg.runtime;
                let mut bad: Option<(&'static [&'static str], &'static str, String)> = None;
                match &e {
                    PoolError::Timeout(TimeoutType::Wait) => {
                        if phase == Phase::Admitted {
                            bad = Some((&["C04", "C10"], "wait_timeout_after_admission", format!("task {} got Timeout(Wait) after it had obtained a slot", t)));
                        } else if eff.wait == Some(Duration::ZERO) {
                            if !closed_before && free_before - woken_waiters > 0 {
                                bad = Some((
                                    &["C10", "C02"],
                                    "nonblocking_failed_with_free_slot",
                                    format!("zero-wait get of task {} failed with Timeout(Wait) although {} slots were free ({} woken waiters)", t, free_before, woken_waiters),
                                ));
                            }
                            if closed_before {
                                bad = Some((&["C06", "C10"], "timeout_instead_of_closed", format!("zero-wait get of task {} on a closed pool returned Timeout(Wait)", t)));
                            }
                        } else {
                            match (eff.wait, started) {
                                (Some(d), Some(s)) if runtime && s.checked_add(d).map(|dl| now >= dl).unwrap_or(false) => {}
                                _ => {
                                    bad = Some((&["C10", "C04"], "wait_timeout_early", format!("task {} got Timeout(Wait) before its deadline ({:?})", t, eff.wait)));
                                }
                            }
                            if closed_before {
                                bad = Some((&["C06"], "timeout_instead_of_closed", format!("task {} on a closed pool returned Timeout(Wait)", t)));
                            }
                        }
                        w.bump("result:timeout_wait");
                    }
                    PoolError::Timeout(TimeoutType::Create) => {
                        let ok = matches!(last, Some((CallKind::Create, Outcome::Dropped)))
                            && runtime
                            && match (eff.create, call_started) {
                                (Some(d), Some(s)) => s.checked_add(d).map(|dl| now >= dl).unwrap_or(false),
                                _ => false,
                            };
                        if !ok {
                            bad = Some((&["C10", "C04"], "create_timeout_unjustified", format!("task {} got Timeout(Create); last failing call {:?}, create timeout {:?}", t, last, eff.create)));
                        }
                        w.bump("result:timeout_create");
                    }
                    PoolError::Timeout(TimeoutType::Recycle) => {
                        bad = Some((&["C04", "C10"], "recycle_timeout_returned", format!("task {} got Timeout(Recycle), which get() must never return", t)));
                    }
                    PoolError::Backend(ErrNo(n)) => {
                        if last != Some((CallKind::Create, Outcome::Err(*n))) {
                            bad = Some((&["C04"], "backend_error_unjustified", format!("task {} got Backend(e{}) but its last failing call was {:?}", t, n, last)));
                        }
                        w.bump("result:backend");
                    }
                    PoolError::PostCreateHook(he) => {
                        let n = hook_err_no(he);
                        let ok = matches!((last, n), (Some((CallKind::PostCreate(_), Outcome::Err(a))), Some(b)) if a == b);
                        if !ok {
                            bad = Some((&["C04"], "post_create_error_unjustified", format!("task {} got PostCreateHook({:?}) but its last failing call was {:?}", t, n, last)));
                        }
                        w.bump("result:post_create_hook");
                    }
                    PoolError::Closed => {
                        if !closed_before {
                            bad = Some((&["C06", "C04"], "closed_on_open_pool", format!("task {} got Closed although close() was never called", t)));
                        } else if phase == Phase::Admitted {
                            bad = Some((&["C04", "C06"], "closed_after_admission", format!("task {} got Closed after it had obtained a slot", t)));
                        }
                        w.bump("result:closed");
                    }
                    PoolError::NoRuntimeSpecified => {
                        let uses = eff.create.is_some() || eff.recycle.is_some() || eff.wait.map(|d| !d.is_zero()).unwrap_or(false);
                        if runtime || !uses {
                            bad = Some((&["C10", "C04"], "no_runtime_unjustified", format!("task {} got NoRuntimeSpecified (runtime={}, timeouts {:?})", t, runtime, eff)));
                        }
                        w.bump("result:no_runtime");
                    }
                }
                if let Some((p, o, m)) = bad {
                    w.viol(p, o, m);
                }
                w.tasks[t].phase = Phase::Done;
                w.tasks[t].result = Some(format!("err:{}", desc));
            }
        }
    }

    /// Drops the future of a suspended task.
    pub fn abandon(&mut self, t: usize) {
        let Some(fut) = self.tasks[t].fut.take() else { return };
        self.sched.str("A");
        self.sched.u64(t as u64);
        let point = {
            let w = self.world();
            match w.tasks[t].phase {
                Phase::Admitted => w
                    .gates
                    .iter()
                    .rev()
                    .find(|g| g.task == t && g.open)
                    .map(|g| g.kind.class())
                    .unwrap_or("in_callback"),
                Phase::NotPolled => "before_first_poll",
                _ => "wait_for_slot",
            }
        };
        self.begin(Op::Abandon(t), format!("abandon t{} at {}", t, point));
        {
            let mut w = self.world();
            w.did_abandon = true;
            w.bump(&format!("abandon:drop:{}", point));
        }
        let r = catch_unwind(AssertUnwindSafe(move || drop(fut)));
        let mut w = self.world();
        if r.is_err() {
            w.viol(&["C03", "C02"], "abandon_panicked", format!("dropping the get() future of task {} panicked", t));
        }
        w.tasks[t].phase = Phase::Done;
        w.tasks[t].result = Some("abandoned".into());
        drop(w);
        self.end();
    }

    pub fn release(&mut self, g: usize, s: Script) {
        self.sched.str("G");
        let waker = {
            let mut w = self.world();
            w.action_no += 1;
            let (t, k) = (w.gates[g].task, w.gates[g].kind);
            w.ev(format!("release gate {} (t{} {}) with {:?}", g, t, k.name(), s));
            w.release_gate(g, s)
        };
        if let Some(wk) = waker {
            wk.wake();
        }
    }

    pub async fn advance(&mut self, d: Duration) {
        self.sched.str("T");
        self.begin(Op::Advance, format!("advance clock {:?}", d));
        tokio::time::advance(d).await;
        self.end();
    }

    // ---------------------------------------------------------------- objects

    pub fn return_obj(&mut self, i: usize) {
        let obj = self.held.swap_remove(i);
        let id = obj.id;
        self.sched.str("R");
        self.begin(Op::Return(id), format!("return obj{}", id));
        self.world().objs[id as usize].state = ObjState::Returning;
        let r = catch_unwind(AssertUnwindSafe(move || drop(obj)));
        let mut w = self.world();
        if r.is_err() {
            w.viol(&["C02", "C06", "*"], "return_panicked", format!("returning obj{} panicked", id));
        }
        if w.objs[id as usize].state == ObjState::Returning {
            // kept by the pool
            if w.closed {
                w.viol(&["C06"], "kept_after_close", format!("obj{} returned to a closed pool was kept", id));
            } else if w.pool_dropped {
                w.viol(&["C06"], "kept_after_pool_drop", format!("obj{} returned after the pool was dropped still exists", id));
            }
            w.objs[id as usize].state = ObjState::Idle;
            w.ref_idle.push_back(id);
            if w.live() > w.max_size_now && !w.closed {
                let (l, m) = (w.live(), w.max_size_now);
                w.viol(&["C07"], "surplus_kept", format!("obj{} was kept on return although {} objects exist and max_size is {}", id, l, m));
            }
            w.bump("returns_kept");
        } else {
            w.bump("returns_discarded");
        }
        drop(w);
        self.end();
    }

    pub fn take_obj(&mut self, i: usize) {
        let obj = self.held.swap_remove(i);
        let id = obj.id;
        self.sched.str("K");
        let before = self.pool.as_ref().map(|p| p.status());
        self.begin(Op::Take(id), format!("take obj{}", id));
        {
            let mut w = self.world();
            w.did_take = true;
            w.objs[id as usize].state = ObjState::External;
        }
        let r = catch_unwind(AssertUnwindSafe(move || Object::take(obj)));
        let after = self.pool.as_ref().map(|p| p.status());
        let mut w = self.world();
        match r {
            Err(_) => w.viol(&["C09", "C06", "*"], "take_panicked", format!("Object::take(obj{}) panicked", id)),
            Ok(inner) => {
                if inner.id != id {
                    w.viol(&["C09"], "take_wrong_value", format!("take of obj{} returned obj{}", id, inner.id));
                }
                let want_detach = if w.pool_dropped { 0 } else { 1 };
                if w.objs[id as usize].detach != want_detach {
                    let d = w.objs[id as usize].detach;
                    w.viol(&["C09"], "take_detach", format!("take of obj{}: detach called {} times (expected {})", id, d, want_detach));
                }
                if let (Some(b), Some(a)) = (before, after) {
                    if a.size + 1 != b.size {
                        w.viol(&["C09", "C11"], "take_size", format!("take of obj{}: status().size went {} -> {}", id, b.size, a.size));
                    }
                }
                w.bump("takes");
                drop(w);
                self.external.push(inner);
                return self.end();
            }
        }
        drop(w);
        self.end();
    }

    pub fn drop_external(&mut self, i: usize) {
        let o = self.external.swap_remove(i);
        self.begin(Op::DropExternal, format!("drop external obj{}", o.id));
        drop(o);
        self.end();
    }

    // ---------------------------------------------------------------- pool-wide calls

    pub fn retain(&mut self, pred: Pred) {
        let Some(pool) = self.pool.clone() else { return };
        self.sched.str("N");
        self.begin(Op::Retain, format!("retain {:?}", pred));
        let idle_before: Vec<u32> = {
            let mut w = self.world();
            w.did_retain = true;
            w.pred_log.clear();
            w.ref_idle.iter().copied().collect()
        };
        let wc = self.w.clone();
        let mut n = 0usize;
        let r = catch_unwind(AssertUnwindSafe(|| {
            pool.retain(|obj, m| {
                let mut w = lock(&wc);
                let id = obj.id;
                let keep = match pred {
                    Pred::All(b) => b,
                    Pred::Mask(mask) => (mask >> (id % 64)) & 1 == 1,
                    Pred::EveryOther(start) => (n % 2 == 0) == start,
                    Pred::FirstK(k) => n < k,
                    Pred::RcOdd => m.recycle_count % 2 == 1,
                };
                n += 1;
                let st = w.objs[id as usize].state;
                if st != ObjState::Idle {
                    w.viol(&["C09"], "retain_touched_non_idle", format!("retain predicate was asked about obj{} which is {:?}", id, st));
                }
                // metrics seen by retain == what Object::metrics() last reported
                let o = &w.objs[id as usize];
                let want_rc = o.handouts.saturating_sub(1) as usize;
                let (mc, mr) = (o.m_created, o.m_recycled);
                if m.recycle_count != want_rc || mc != Some(m.created) || mr != m.recycled {
                    w.viol(
                        &["C13"],
                        "metrics_seen_by_retain",
                        format!("retain saw recycle_count {} (recycled set: {}) for obj{}, Object::metrics() last reported {} ({})", m.recycle_count, m.recycled.is_some(), id, want_rc, mr.is_some()),
                    );
                }
                w.pred_log.push((id, keep));
                w.ev(format!("  pred obj{} -> {}", id, keep));
                if !keep {
                    w.objs[id as usize].state = ObjState::External;
                }
                keep
            })
        }));
        let mut w = self.world();
        match r {
            Err(_) => w.viol(&["C09", "*"], "retain_panicked", "retain() panicked".into()),
            Ok(res) => {
                let mut asked: Vec<u32> = w.pred_log.iter().map(|x| x.0).collect();
                asked.sort();
                let mut want: Vec<u32> = idle_before.clone();
                want.sort();
                if asked != want {
                    w.viol(&["C09"], "retain_visit", format!("retain asked about {:?}, idle objects were {:?}", asked, want));
                }
                let mut falses: Vec<u32> = w.pred_log.iter().filter(|x| !x.1).map(|x| x.0).collect();
                falses.sort();
                let trues = w.pred_log.iter().filter(|x| x.1).count();
                let mut got: Vec<u32> = res.removed.iter().map(|o| o.id).collect();
                got.sort();
                if got != falses {
                    w.viol(&["C09"], "retain_removed", format!("retain removed {:?}, predicate rejected {:?}", got, falses));
                }
                if res.retained != trues {
                    w.viol(&["C09"], "retain_count", format!("retain reported retained={} but predicate accepted {}", res.retained, trues));
                }
                for id in &got {
                    if w.objs[*id as usize].detach != 1 {
                        let d = w.objs[*id as usize].detach;
                        w.viol(&["C09"], "retain_detach", format!("obj{} removed by retain was detached {} times", id, d));
                    }
                }
                w.ref_idle.retain(|x| !falses.contains(x));
                if !falses.is_empty() && trues > 0 {
                    w.bump("retain_partial");
                }
                w.bump("retains");
                drop(w);
                self.external.extend(res.removed);
                return self.end();
            }
        }
        drop(w);
        self.end();
    }

    pub fn resize(&mut self, n: usize) {
        let Some(pool) = self.pool.clone() else { return };
        self.sched.str("Z");
        self.begin(Op::Resize(n), format!("resize {}", n));
        let live_before = self.world().live();
        let r = catch_unwind(AssertUnwindSafe(|| pool.resize(n)));
        let st = pool.status();
        let mut w = self.world();
        if r.is_err() {
            if w.closed {
                w.viol(&["C06", "*"], "resize_after_close", format!("resize({}) on a closed pool panicked", n));
            } else {
                w.viol(&["C07", "*"], "resize_panicked", format!("resize({}) panicked", n));
            }
        }
        if w.closed {
            if st.max_size != 0 || w.live() != live_before {
                w.viol(&["C06"], "resize_after_close", format!("resize({}) on a closed pool had an effect (max_size {})", n, st.max_size));
            }
        } else {
            if n < w.max_size_now {
                w.shrunk = true;
                w.bump("shrinks");
                if w.held() + w.admitted_unfinished() > n {
                    w.bump("shrinks_below_outstanding");
                }
            } else if n > w.max_size_now {
                w.bump("grows");
                if w.waiting_tasks() > 0 {
                    w.bump("grows_with_waiters");
                }
            }
            w.resized = true;
            w.max_size_now = n;
            if st.max_size != n {
                w.viol(&["C07"], "resize_max_size", format!("status().max_size is {} after resize({})", st.max_size, n));
            }
            if !w.ref_idle.is_empty() && w.live() > n {
                let (l, i) = (w.live(), w.ref_idle.len());
                w.viol(&["C07"], "idle_surplus_left", format!("after resize({}) {} objects exist and {} of them are still idle in the pool", n, l, i));
            }
        }
        drop(w);
        self.end();
    }

    pub fn close(&mut self) {
        let Some(pool) = self.pool.clone() else { return };
        self.sched.str("C");
        self.begin(Op::Close, "close".into());
        let r = catch_unwind(AssertUnwindSafe(|| pool.close()));
        let st = pool.status();
        let closed = pool.is_closed();
        let mut w = self.world();
        if r.is_err() {
            w.viol(&["C06", "*"], "close_panicked", "close() panicked".into());
        }
        if w.waiting_tasks() > 0 || w.held() > 0 {
            w.nontrivial = true;
        }
        w.closed = true;
        w.resized = true;
        w.max_size_now = 0;
        if !closed {
            w.viol(&["C06"], "is_closed_false", "is_closed() is false after close()".into());
        }
        if st.max_size != 0 {
            w.viol(&["C06"], "closed_max_size", format!("status().max_size is {} after close()", st.max_size));
        }
        if !w.ref_idle.is_empty() {
            let i = w.ref_idle.clone();
            w.viol(&["C06"], "idle_kept_by_closed_pool", format!("idle objects {:?} still exist after close() returned", i));
        }
        w.bump("closes");
        drop(w);
        self.end();
    }

    /// Drops every pool handle the harness owns (tasks must be finished).
    pub fn drop_pool(&mut self) {
        if !self.live_tasks().is_empty() {
            return;
        }
        self.begin(Op::DropPool, "drop all pool handles".into());
        self.world().pool_dropped = true;
        let p = self.pool.take();
        let c = std::mem::take(&mut self.clones);
        let oh = std::mem::take(&mut self.obj_handles);
        let r = catch_unwind(AssertUnwindSafe(move || {
            drop(oh);
            drop(c);
            drop(p);
        }));
        let mut w = self.world();
        if r.is_err() {
            w.viol(&["C06", "*"], "pool_drop_panicked", "dropping the pool panicked".into());
        }
        if !w.ref_idle.is_empty() {
            // idle objects must have died with the pool
            let i = w.ref_idle.clone();
            w.viol(&["C06"], "idle_outlives_pool", format!("idle objects {:?} outlive the pool", i));
        }
        w.op = Op::Idle;
        w.sweep();
    }

    // ---------------------------------------------------------------- status oracle

    pub fn sample_status(&mut self) {
        let Some(pool) = self.pool.as_ref() else { return };
        let st: Status = pool.status();
        let quiescent = self.quiescent();
        let mut w = self.world();
        let live = w.live();
        let idle = w.ref_idle.len();
        let held = w.held();
        let waiting = w.waiting_tasks();
        let admitted = w.admitted_unfinished();
        let unfinished = w.tasks.iter().filter(|t| t.phase != Phase::Done).count();
        let mut h = vh_common::Hasher::default();
        for x in [held, idle, admitted, waiting, w.max_size_now, w.closed as usize, st.size, st.available, st.waiting] {
            h.u64(x as u64);
        }
        drop(w);
        let _ = self.states.insert(h.0);
        let mut w = self.world();
        let big = 1usize << 32;
        if st.size >= big || st.available >= big || st.waiting >= big || st.max_size >= big {
            w.viol(&["C11"], "status_wrapped", format!("status() reports a wrapped counter: {:?}", st));
        } else {
            if st.size > live + w.creating {
                let c = w.creating;
                w.viol(&["C11"], "status_size_too_big", format!("status().size={} but only {} objects exist and {} are being created", st.size, live, c));
            }
            if st.available > st.size {
                w.viol(&["C11"], "status_available_gt_size", format!("{:?}", st));
            }
            if st.waiting > unfinished {
                let props: &[&'static str] = if w.did_abandon { &["C11", "C03"] } else { &["C11"] };
                w.viol(props, "status_waiting_too_big", format!("status().waiting={} but only {} callers are inside get()", st.waiting, unfinished));
            }
            if st.size > st.max_size && !w.shrunk && !w.closed {
                w.viol(&["C11", "C01"], "status_size_gt_max", format!("{:?} without any shrink", st));
            }
        }
        if quiescent && admitted == 0 && !w.stop() {
            let want_max = if w.closed { 0 } else { w.max_size_now };
            if st.max_size != want_max || st.size != idle + held || st.available != idle || st.waiting != waiting {
                let mut props = vec!["C11"];
                if w.did_abandon {
                    props.push("C03");
                }
                w.viol(
                    &props,
                    "status_at_rest",
                    format!(
                        "at rest status() = {:?}, ground truth: max_size={} existing={} (idle {} + held {}) blocked getters={}",
                        st, want_max, idle + held, idle, held, waiting
                    ),
                );
            }
            w.bump("status_exact_checks");
        }
        w.bump("status_samples");
    }

    // ---------------------------------------------------------------- quiescence oracle

    /// To be called when no task is runnable.
    pub fn check_quiescence(&mut self) {
        if !self.quiescent() {
            return;
        }
        let now = tokio::time::Instant::now();
        let mut w = self.world();
        w.bump("quiescent_points");
        let free = w.free_capacity();
        let blocked: Vec<usize> = (0..w.tasks.len()).filter(|t| w.tasks[*t].phase == Phase::Waiting).collect();
        if !blocked.is_empty() {
            w.bump("quiescent_points_with_blocked_getters");
            w.nontrivial = true;
        }
        for t in blocked {
            if w.closed {
                w.viol(&["C06", "C02"], "blocked_after_close", format!("task {} is still blocked in get() although the pool is closed", t));
            } else if free > 0 {
                let p = w.capacity_props();
                let (h, a, m) = (w.held(), w.admitted_unfinished(), w.max_size_now);
                w.viol(
                    &p,
                    "stranded_waiter",
                    format!("nothing is runnable, task {} is blocked in get(), but only {} held + {} admitted of max_size {} are in use", t, h, a, m),
                );
            }
            if let (Some(d), Some(s), true) = (w.tasks[t].eff.wait, w.tasks[t].started_at, w.cfg.runtime) {
                if s.checked_add(d).map(|dl| now >= dl).unwrap_or(false) {
                    w.viol(&["C10"], "wait_deadline_ignored", format!("task {} still waits although its wait deadline ({:?}) has passed", t, d));
                }
            }
        }
    }
}

pub fn random_pred(rng: &mut Rng) -> Pred {
    match rng.below(6) {
        0 => Pred::All(true),
        1 => Pred::All(false),
        2 => Pred::Mask(rng.next_u64()),
        3 => Pred::EveryOther(rng.chance(1, 2)),
        4 => Pred::FirstK(rng.usize_below(3)),
        _ => Pred::RcOdd,
    }
}
