//! Task-level engine: a seeded director polls the real `get()` futures of a
//! real managed pool by hand inside a paused-clock current-thread runtime.

pub mod c03;
pub mod c04;
pub mod c10;
pub mod director;
pub mod manager;
pub mod run;
pub mod types;
pub mod world;
