//! C04: complete enumeration of the outcome tree of one get() over small
//! pools: every callback of the call takes each of its possible outcomes
//! (ok / error / panic, and for async callbacks "caller gives up while
//! suspended"), depth first, for 0..k idle objects and 0..h hooks per kind.

use std::sync::{Arc, Mutex};

use vh_common::Rng;

use super::director::*;
use super::manager::lock;
use super::run::*;
use super::types::*;
use super::world::{Dfs, World};

#[derive(Clone, Debug)]
pub struct C04Cfg {
    pub n_pre: usize,
    pub n_post: usize,
    pub n_pc: usize,
    /// 0 = all async, 1 = all sync, 2 = alternating
    pub flavors: u8,
    pub idle: usize,
    pub lifo: bool,
}

impl C04Cfg {
    pub fn describe(&self) -> String {
        format!("pre={} post={} post_create={} flavors={} idle={} lifo={}", self.n_pre, self.n_post, self.n_pc, self.flavors, self.idle, self.lifo)
    }
}

pub fn configs(max_hooks: usize, max_idle: usize) -> Vec<C04Cfg> {
    let mut v = Vec::new();
    for n_pre in 0..=max_hooks {
        for n_post in 0..=max_hooks {
            for n_pc in 0..=max_hooks {
                for flavors in 0..3u8 {
                    if flavors > 0 && n_pre + n_post + n_pc == 0 {
                        continue;
                    }
                    for idle in 0..=max_idle {
                        for lifo in [false, true] {
                            if lifo && idle < 2 {
                                continue;
                            }
                            v.push(C04Cfg { n_pre, n_post, n_pc, flavors, idle, lifo });
                        }
                    }
                }
            }
        }
    }
    v
}

fn flav(c: &C04Cfg, n: usize, off: usize) -> Vec<HookFlavor> {
    (0..n)
        .map(|i| match c.flavors {
            0 => HookFlavor::Async,
            1 => HookFlavor::Sync,
            _ => {
                if (i + off) % 2 == 0 {
                    HookFlavor::Sync
                } else {
                    HookFlavor::Async
                }
            }
        })
        .collect()
}

/// Runs one path. Returns the decisions taken (choice, arity).
pub fn run_path(rt: &tokio::runtime::Runtime, c: &C04Cfg, prefix: &[u8], suspend_ok: bool, keep_log: bool) -> (HistoryOut, Vec<(u8, u8)>) {
    let cfg = PoolCfg {
        max_size: c.idle + 1,
        mode: if c.lifo { Mode::Lifo } else { Mode::Fifo },
        post_create: flav(c, c.n_pc, 0),
        pre_recycle: flav(c, c.n_pre, 1),
        post_recycle: flav(c, c.n_post, 0),
        wait: None,
        create: None,
        recycle: None,
        runtime: false,
    };
    let desc = format!("{} path={:?} suspend_ok={}", c.describe(), prefix, suspend_ok);
    let mut world = World::new("C04", cfg, Rng::new(1));
    world.keep_log = keep_log;
    world.p_err = 0;
    world.p_panic = 0;
    world.p_gate = 0;
    world.ev(format!("C04 path: {}", desc));
    let w = Arc::new(Mutex::new(world));
    let mut sched = 0;
    let mut states = Default::default();
    let mut taken = Vec::new();
    rt.block_on(async {
        let pool = match build_pool(&w) {
            Ok(p) => p,
            Err(e) => {
                lock(&w).viol(&["*"], "harness_build", e);
                return;
            }
        };
        lock(&w).op = Op::Idle;
        let mut d = Director::new(w.clone(), pool);
        // ---- set-up: `idle` objects, returned in creation order
        for _ in 0..c.idle {
            let _ = d.start_task(NB, Vec::new());
        }
        while !d.held.is_empty() {
            d.return_obj(0);
        }
        if d.world().stop() {
            return;
        }
        // ---- the enumerated get
        let t = d.tasks.len();
        d.world().dfs = Some(Dfs { task: t, prefix: prefix.to_vec(), taken: Vec::new(), abandon_at_gate: false, suspend_ok });
        let kind = TaskKind { per_call: None, outer: None };
        let _ = d.start_task(kind, Vec::new());
        let mut guard = 0;
        while d.tasks[t].fut.is_some() && !d.world().stop() && guard < 200 {
            guard += 1;
            if d.tasks[t].flag.0.load(std::sync::atomic::Ordering::SeqCst) {
                d.poll_task(t, format!("poll t{}", t));
                continue;
            }
            let gates = d.world().open_gates();
            if let Some(g) = gates.first().copied() {
                let abandon = d.world().dfs.as_ref().map(|x| x.abandon_at_gate).unwrap_or(false);
                if abandon {
                    d.abandon(t);
                } else {
                    d.release(g, Script::Ok);
                }
            } else {
                // suspended without a gate: waiting for a slot cannot happen here (max_size = idle + 1)
                d.world().viol(&["C04", "C02"], "enumerated_get_blocked", format!("the enumerated get of task {} is blocked although a slot is free", t));
                break;
            }
        }
        taken = d.world().dfs.take().map(|x| x.taken).unwrap_or_default();
        {
            let mut w = d.world();
            let res = w.tasks[t].result.clone().unwrap_or_default();
            w.bump(&format!("c04:result:{}", res.split(|ch| ch == ':' || ch == '(').take(2).collect::<Vec<_>>().join(":").replace(char::is_numeric, "")));
            w.nontrivial = taken.iter().any(|x| x.0 != 0);
        }
        if !d.world().stop() {
            let p = profile_for("C04");
            let mut rng = Rng::new(7);
            settle_and_probe(&mut d, &p, &mut rng).await;
        }
        lock(&w).op = Op::DropPool;
        lock(&w).pool_dropped = true;
        lock(&w).teardown = true;
        sched = d.sched.0;
        states = std::mem::take(&mut d.states);
        let _ = std::panic::catch_unwind(std::panic::AssertUnwindSafe(move || drop(d)));
    });
    let mut wl = lock(&w);
    (
        HistoryOut {
            violations: std::mem::take(&mut wl.violations),
            foreign: wl.foreign.len(),
            log: std::mem::take(&mut wl.log),
            hash: wl.log_hash.0,
            sched,
            states,
            counters: std::mem::take(&mut wl.counters),
            nontrivial: wl.nontrivial,
            events: wl.callbacks + wl.action_no,
            cfg: desc,
        },
        taken,
    )
}

/// Next path in depth-first order, or None when the tree is exhausted.
pub fn next_prefix(taken: &[(u8, u8)]) -> Option<Vec<u8>> {
    let mut t: Vec<(u8, u8)> = taken.to_vec();
    while let Some((c, a)) = t.pop() {
        if c + 1 < a {
            let mut p: Vec<u8> = t.iter().map(|x| x.0).collect();
            p.push(c + 1);
            return Some(p);
        }
    }
    None
}
