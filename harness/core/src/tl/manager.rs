//! Scripted manager, hooks and pooled object of the TL engine.

use std::future::Future;
use std::pin::Pin;
use std::sync::{Arc, Mutex};
use std::task::{Context, Poll};

use deadpool::managed::{self, Hook, HookError, Metrics, RecycleError, RecycleResult};
use vh_common::InjectedPanic;

use super::types::*;
use super::world::{Ticket, World};

pub type W = Arc<Mutex<World>>;

pub fn lock(w: &W) -> std::sync::MutexGuard<'_, World> {
    w.lock().unwrap_or_else(|e| e.into_inner())
}

/// Error type of the scripted manager: carries the unique number of the
/// failing call so that the error a caller receives identifies its origin.
#[derive(Debug, Clone, Copy, PartialEq, Eq)]
pub struct ErrNo(pub u32);

/// Pooled value. Its destructor reports to the world.
pub struct Obj {
    pub id: u32,
    w: W,
}

impl Obj {
    pub fn world(&self) -> W {
        self.w.clone()
    }
}

impl Drop for Obj {
    fn drop(&mut self) {
        lock(&self.w).on_destruct(self.id);
    }
}

impl std::fmt::Debug for Obj {
    fn fmt(&self, f: &mut std::fmt::Formatter<'_>) -> std::fmt::Result {
        write!(f, "Obj({})", self.id)
    }
}

pub struct ScriptedManager {
    pub w: W,
}

/// Reports a callback whose future is dropped before it produced a result.
struct CallGuard {
    w: W,
    ticket: Option<Ticket>,
}
impl Drop for CallGuard {
    fn drop(&mut self) {
        if let Some(t) = self.ticket.take() {
            lock(&self.w).on_call_dropped(t);
        }
    }
}

struct GateFut {
    w: W,
    gate: usize,
}
impl Future for GateFut {
    type Output = Outcome;
    fn poll(self: Pin<&mut Self>, cx: &mut Context<'_>) -> Poll<Outcome> {
        let mut w = lock(&self.w);
        let g = &mut w.gates[self.gate];
        if let Some(o) = g.released {
            Poll::Ready(o)
        } else {
            g.waker = Some(cx.waker().clone());
            Poll::Pending
        }
    }
}

async fn run_plan(w: W, plan: Plan, ticket: Ticket) -> (Outcome, Option<u32>) {
    let mut guard = CallGuard {
        w: w.clone(),
        ticket: Some(ticket),
    };
    let outcome = match plan {
        Plan::Now(o) => o,
        Plan::Gate(g) => GateFut { w: w.clone(), gate: g }.await,
    };
    let tk = guard.ticket.take().unwrap();
    let new_id = lock(&w).end_call(tk, outcome);
    (outcome, new_id)
}

impl managed::Manager for ScriptedManager {
    type Type = Obj;
    type Error = ErrNo;

    fn create(&self) -> impl Future<Output = Result<Obj, ErrNo>> + Send {
        let (plan, ticket) = lock(&self.w).begin_call(CallKind::Create, None, true);
        let w = self.w.clone();
        // the guard lives in the future from its creation on, so a future that
        // is dropped without ever being polled is still accounted for
        let fut = run_plan(w.clone(), plan, ticket);
        let pending = PendingCall {
            w: w.clone(),
            ticket: Some(ticket),
        };
        async move {
            let mut pending = pending;
            pending.ticket = None; // from here on `fut`'s own guard is responsible
            let (outcome, new_id) = fut.await;
            match outcome {
                Outcome::Ok => Ok(Obj {
                    id: new_id.unwrap(),
                    w,
                }),
                Outcome::Err(n) => Err(ErrNo(n)),
                Outcome::Panic(n) => std::panic::panic_any(InjectedPanic(n)),
                Outcome::Dropped => unreachable!(),
            }
        }
    }

    fn recycle(&self, obj: &mut Obj, metrics: &Metrics) -> impl Future<Output = RecycleResult<ErrNo>> + Send {
        let (plan, ticket) = lock(&self.w).begin_call(CallKind::Recycle, Some((obj.id, *metrics)), true);
        let w = self.w.clone();
        let fut = run_plan(w.clone(), plan, ticket);
        let pending = PendingCall {
            w,
            ticket: Some(ticket),
        };
        async move {
            let mut pending = pending;
            pending.ticket = None;
            let (outcome, _) = fut.await;
            match outcome {
                Outcome::Ok => Ok(()),
                Outcome::Err(n) => {
                    if n % 2 == 0 {
                        Err(RecycleError::Backend(ErrNo(n)))
                    } else {
                        Err(RecycleError::message(format!("e{}", n)))
                    }
                }
                Outcome::Panic(n) => std::panic::panic_any(InjectedPanic(n)),
                Outcome::Dropped => unreachable!(),
            }
        }
    }

    fn detach(&self, obj: &mut Obj) {
        lock(&self.w).on_detach(obj.id);
    }
}

/// Covers the window between the creation of a callback future and its first
/// poll: `run_plan`'s guard only exists once that future has been polled.
struct PendingCall {
    w: W,
    ticket: Option<Ticket>,
}
impl Drop for PendingCall {
    fn drop(&mut self) {
        if let Some(t) = self.ticket.take() {
            lock(&self.w).on_call_dropped(t);
        }
    }
}

fn hook_err(n: u32) -> HookError<ErrNo> {
    if n % 2 == 0 {
        HookError::Backend(ErrNo(n))
    } else {
        HookError::message(format!("e{}", n))
    }
}

/// Extracts the call number from a hook error produced by `hook_err`.
pub fn hook_err_no(e: &HookError<ErrNo>) -> Option<u32> {
    match e {
        HookError::Backend(ErrNo(n)) => Some(*n),
        HookError::Message(m) => m.strip_prefix('e').and_then(|x| x.parse().ok()),
    }
}

pub fn make_hook(w: &W, kind: CallKind, flavor: HookFlavor) -> Hook<ScriptedManager> {
    let w = w.clone();
    match flavor {
        HookFlavor::Sync => Hook::sync_fn(move |obj: &mut Obj, m: &Metrics| {
            let (plan, ticket) = lock(&w).begin_call(kind, Some((obj.id, *m)), false);
            let outcome = match plan {
                Plan::Now(o) => o,
                Plan::Gate(_) => unreachable!("sync hooks are never gated"),
            };
            let _ = lock(&w).end_call(ticket, outcome);
            match outcome {
                Outcome::Ok => Ok(()),
                Outcome::Err(n) => Err(hook_err(n)),
                Outcome::Panic(n) => std::panic::panic_any(InjectedPanic(n)),
                Outcome::Dropped => unreachable!(),
            }
        }),
        HookFlavor::Async => Hook::async_fn(move |obj: &mut Obj, m: &Metrics| {
            let (plan, ticket) = lock(&w).begin_call(kind, Some((obj.id, *m)), true);
            let w2 = w.clone();
            let pending = PendingCall {
                w: w.clone(),
                ticket: Some(ticket),
            };
            Box::pin(async move {
                let mut pending = pending;
                pending.ticket = None;
                let (outcome, _) = run_plan(w2, plan, ticket).await;
                match outcome {
                    Outcome::Ok => Ok(()),
                    Outcome::Err(n) => Err(hook_err(n)),
                    Outcome::Panic(n) => std::panic::panic_any(InjectedPanic(n)),
                    Outcome::Dropped => unreachable!(),
                }
            })
        }),
    }
}
