mod tl;

use vh_common::{Args, Coverage, Finding, Json, Report, Tier};

fn rule_for(prop: &str) -> &'static str {
    match prop {
        _ => "random TL histories; non-trivial = history contains an event relevant to the property",
    }
}

fn run_tl_random(args: &Args, rep: &mut Report, prop: &'static str, n_hist: u64) {
    let p = tl::run::profile_for(prop);
    let jobs = args.jobs.max(1);
    let seed = args.seed;
    let pp = p.clone();
    let outs = vh_common::parallel(jobs, move |wk| {
        let rt = tl::run::new_runtime();
        let mut cov = Coverage::default();
        let mut finds: Vec<Finding> = Vec::new();
        let mut idx = wk as u64;
        while idx < n_hist {
            let out = tl::run::run_history(&rt, &pp, seed, idx, false);
            cov.evaluations += 1;
            cov.events += out.events;
            let _ = cov.distinct.insert(out.hash);
            if out.nontrivial {
                let _ = cov.nontrivial.insert(out.hash);
            }
            let _ = cov.schedules.insert(out.sched);
            cov.states.extend(out.states.iter().copied());
            for (k, v) in &out.counters {
                cov.add(k, *v);
            }
            if out.foreign > 0 {
                cov.bump("histories_stopped_by_oracle_of_other_property");
            }
            if !out.violations.is_empty() || (cov.samples.is_empty() && out.nontrivial) {
                // deterministic: run again with the log switched on
                let full = tl::run::run_history(&rt, &pp, seed, idx, true);
                if !out.violations.is_empty() {
                    for v in &full.violations {
                        finds.push(Finding {
                            v: v.clone(),
                            sig: format!("{}/tl/{}", pp.prop, v.oracle),
                            replay: tl::run::history_json(&pp, seed, idx, &full, 100000),
                        });
                        break;
                    }
                } else {
                    cov.sample(tl::run::history_json(&pp, seed, idx, &full, 60));
                }
            }
            idx += jobs as u64;
        }
        (cov, finds)
    });
    for (cov, finds) in outs {
        rep.engine("tl_random").merge(cov);
        rep.add_findings(finds);
    }
}

fn main() {
    vh_common::install_panic_hook();
    let args = Args::parse();
    if args.prop == "replay" {
        replay(&args);
        return;
    }
    let prop: &'static str = Box::leak(args.prop.clone().into_boxed_str());
    let mut rep = Report::new(&args, "exploration", rule_for(prop));
    let n = (args.tier.pick(20_000.0, 400_000.0) * args.scale) as u64;
    if args.engine_enabled("tl") {
        run_tl_random(&args, &mut rep, prop, n);
    }
    let code = rep.finish(&args);
    std::process::exit(code);
}

fn replay(args: &Args) {
    let path = args.replay.clone().expect("replay file");
    let txt = std::fs::read_to_string(&path).expect("read replay file");
    let j = vh_common::parse_json(&txt).expect("parse replay file");
    let engine = j.get("engine").and_then(Json::as_str).unwrap_or("");
    match engine {
        "tl" => {
            let prop = j.get("profile_prop").and_then(Json::as_str).unwrap_or("C01").to_string();
            let seed = j.get("seed").and_then(Json::as_i64).unwrap_or(1) as u64;
            let idx = j.get("index").and_then(Json::as_i64).unwrap_or(0) as u64;
            let p = tl::run::profile_for(&prop);
            let rt = tl::run::new_runtime();
            let out = tl::run::run_history(&rt, &p, seed, idx, true);
            for l in &out.log {
                println!("{}", l);
            }
            if out.violations.is_empty() {
                println!("REPLAY: no violation reproduced");
            } else {
                for v in &out.violations {
                    println!("REPLAY: reproduced {} {} :: {}", v.prop, v.oracle, v.msg);
                }
                std::process::exit(1);
            }
        }
        e => {
            eprintln!("unknown engine {:?} in replay file", e);
            std::process::exit(3);
        }
    }
    let _ = Tier::Quick;
}
