mod tl;
mod utl;
mod th;
mod qmode;
mod rtreal;

use std::collections::{BTreeMap, HashSet};
use std::sync::Arc;

use vh_common::{Args, Coverage, Finding, Json, Report, Violation};

/// Engine-independent view of one executed case.
pub struct Case {
    pub violations: Vec<Violation>,
    pub foreign: usize,
    pub hash: u64,
    pub sched: u64,
    pub states: HashSet<u64>,
    pub counters: BTreeMap<String, u64>,
    pub nontrivial: bool,
    pub events: u64,
    /// full description (only filled when the case was run with logging on)
    pub json: Json,
}

impl From<(tl::run::HistoryOut, Json)> for Case {
    fn from((o, json): (tl::run::HistoryOut, Json)) -> Case {
        Case { violations: o.violations, foreign: o.foreign, hash: o.hash, sched: o.sched, states: o.states, counters: o.counters, nontrivial: o.nontrivial, events: o.events, json }
    }
}
impl From<(utl::UOut, Json)> for Case {
    fn from((o, json): (utl::UOut, Json)) -> Case {
        Case { violations: o.violations, foreign: o.foreign, hash: o.hash, sched: o.sched, states: o.states, counters: o.counters, nontrivial: o.nontrivial, events: o.events, json }
    }
}

/// Runs `n` cases of a deterministic engine on all cores. `run(rt, idx, log)`.
pub fn run_cases(
    args: &Args,
    rep: &mut Report,
    engine: &str,
    sig_prefix: String,
    n: u64,
    run: impl Fn(&tokio::runtime::Runtime, u64, bool) -> Case + Send + Sync + 'static,
) {
    let jobs = args.jobs.max(1);
    let run = Arc::new(run);
    let outs = vh_common::parallel(jobs, move |wk| {
        let rt = tl::run::new_runtime();
        let mut cov = Coverage::default();
        let mut finds: Vec<Finding> = Vec::new();
        let mut idx = wk as u64;
        while idx < n {
            let _case = vh_common::CaseGuard::new(format!("{} case {}", sig_prefix, idx));
            let out = run(&rt, idx, false);
            cov.evaluations += 1;
            cov.events += out.events;
            let _ = cov.distinct.insert(out.hash);
            if out.nontrivial {
                let _ = cov.nontrivial.insert(out.hash);
            }
            let _ = cov.schedules.insert(out.sched);
            cov.states.extend(out.states.iter().copied());
            for (k, v) in &out.counters {
                cov.add(k, *v);
            }
            if out.foreign > 0 {
                cov.bump("cases_stopped_by_oracle_of_other_property");
            }
            if !out.violations.is_empty() {
                cov.bump("violating_cases");
            }
            if !out.violations.is_empty() && finds.len() < 4 {
                // deterministic: run again with the log switched on
                let full = run(&rt, idx, true);
                if let Some(v) = full.violations.first() {
                    finds.push(Finding { v: v.clone(), sig: format!("{}/{}", sig_prefix, v.oracle), replay: full.json });
                } else {
                    let v = out.violations[0].clone();
                    finds.push(Finding {
                        sig: format!("{}/{}", sig_prefix, v.oracle),
                        v,
                        replay: Json::obj().with("note", "violation did not reproduce when the case was re-run with logging on").with("index", idx),
                    });
                }
            } else if cov.samples.is_empty() && out.nontrivial {
                let full = run(&rt, idx, true);
                cov.sample(full.json);
            }
            idx += jobs as u64;
        }
        (cov, finds)
    });
    for (cov, finds) in outs {
        rep.engine(engine).merge(cov);
        rep.add_findings(finds);
    }
}

fn leak(s: &str) -> &'static str {
    Box::leak(s.to_string().into_boxed_str())
}

fn tl_random(args: &Args, rep: &mut Report, prop: &'static str, n: u64) {
    let p = tl::run::profile_for(prop);
    let seed = args.seed;
    run_cases(args, rep, "tl_random", format!("{}/tl", prop), n, move |rt, idx, log| {
        let o = tl::run::run_history(rt, &p, seed, idx, log);
        let j = if log { tl::run::history_json(&p, seed, idx, &o, if o.violations.is_empty() { 60 } else { 100000 }) } else { Json::Null };
        (o, j).into()
    });
}

fn tl_c03(args: &Args, rep: &mut Report, n: u64) {
    let seed = args.seed;
    run_cases(args, rep, "tl_c03_matrix", "C03/tl_c03".to_string(), n, move |rt, idx, log| {
        let o = tl::c03::run_case(rt, seed, idx, log);
        let j = if log { tl::run::case_json("tl_c03", "C03", seed, idx, &o, if o.violations.is_empty() { 80 } else { 100000 }) } else { Json::Null };
        (o, j).into()
    });
    // the matrix: every (suspension point class x abandonment kind) cell must have been exercised
    let cov = rep.engine("tl_c03_matrix");
    let mut missing = Vec::new();
    for pc in tl::c03::POINT_CLASSES {
        for k in tl::c03::KINDS {
            if pc == "wait_for_slot" && k == "Panic" {
                continue; // no callback runs while waiting for a slot: nothing can panic there
            }
            if cov.counters.get(&format!("c03cell:{}:{}", pc, k)).copied().unwrap_or(0) == 0 {
                missing.push(format!("{}x{}", pc, k));
            }
        }
    }
    if !missing.is_empty() {
        cov.inconclusive.push(format!("abandonment matrix cells never exercised: {}", missing.join(",")));
    }
}

/// C04: exhaustive enumeration of the outcome tree of one get().
fn tl_c04_enum(args: &Args, rep: &mut Report, max_hooks: usize, max_idle: usize) {
    let cfgs = Arc::new(tl::c04::configs(max_hooks, max_idle));
    let n = cfgs.len();
    let jobs = args.jobs.max(1);
    let outs = vh_common::parallel(jobs, {
        let cfgs = cfgs.clone();
        move |wk| {
            let rt = tl::run::new_runtime();
            let mut cov = Coverage::default();
            let mut finds: Vec<Finding> = Vec::new();
            let mut i = wk;
            while i < n {
                let c = &cfgs[i];
                for suspend_ok in [false, true] {
                    if suspend_ok && c.flavors == 1 {
                        continue;
                    }
                    let mut prefix: Vec<u8> = Vec::new();
                    loop {
                        let (out, taken) = tl::c04::run_path(&rt, c, &prefix, suspend_ok, false);
                        cov.evaluations += 1;
                        cov.events += out.events;
                        let _ = cov.distinct.insert(out.hash);
                        if out.nontrivial {
                            let _ = cov.nontrivial.insert(out.hash);
                        }
                        let _ = cov.schedules.insert(out.sched);
                        cov.states.extend(out.states.iter().copied());
                        for (k, v) in &out.counters {
                            if k.starts_with("c04:") || k.starts_with("outcome:") || k.starts_with("result:") {
                                cov.add(k, *v);
                            }
                        }
                        if out.foreign > 0 {
                            cov.bump("cases_stopped_by_oracle_of_other_property");
                        }
                        if !out.violations.is_empty() {
                            cov.bump("violating_cases");
                        }
                        if !out.violations.is_empty() && finds.len() < 4 {
                            let (full, _) = tl::c04::run_path(&rt, c, &prefix, suspend_ok, true);
                            let v = full.violations.first().cloned().unwrap_or_else(|| out.violations[0].clone());
                            let j = Json::obj()
                                .with("engine", "tl_c04")
                                .with("profile_prop", "C04")
                                .with("config_index", i)
                                .with("max_hooks", max_hooks)
                                .with("max_idle", max_idle)
                                .with("suspend_ok", suspend_ok)
                                .with("prefix", prefix.iter().map(|x| *x as u64).collect::<Vec<_>>())
                                .with("config", full.cfg.as_str())
                                .with("log", full.log.iter().map(|s| Json::from(s.as_str())).collect::<Vec<_>>());
                            finds.push(Finding { sig: format!("C04/tl_c04/{}", v.oracle), v, replay: j });
                        } else if cov.samples.is_empty() && out.nontrivial && prefix.len() > 2 {
                            let (full, _) = tl::c04::run_path(&rt, c, &prefix, suspend_ok, true);
                            cov.sample(Json::obj().with("config", full.cfg.as_str()).with("log", full.log.iter().take(60).map(|s| Json::from(s.as_str())).collect::<Vec<_>>()));
                        }
                        match tl::c04::next_prefix(&taken) {
                            Some(p) => prefix = p,
                            None => break,
                        }
                    }
                    cov.bump("c04:trees_completed");
                }
                i += jobs;
            }
            (cov, finds)
        }
    });
    for (cov, finds) in outs {
        rep.engine("tl_c04_enum").merge(cov);
        rep.add_findings(finds);
    }
    rep.exhaustive = Some(true);
    let _ = rep.extra.set("exhaustive_scope", format!("outcome tree of one get(): 0..={} hooks per kind (async / sync / mixed), 0..={} idle objects, both queue modes; outcomes per callback: ok, error, panic, and (async) caller gives up while suspended", max_hooks, max_idle));
}

/// C10: the complete table of directed timeout scenarios on the virtual clock.
fn tl_c10_table(args: &Args, rep: &mut Report) {
    let scns = Arc::new(tl::c10::scenarios());
    let n = scns.len() as u64;
    let s2 = scns.clone();
    run_cases(args, rep, "tl_c10_table", "C10/tl_c10".to_string(), n, move |rt, idx, log| {
        let s = &s2[idx as usize];
        let o = tl::c10::run_scn(rt, s, log);
        let j = if log {
            let mut j = tl::run::case_json("tl_c10", "C10", 0, idx, &o, if o.violations.is_empty() { 60 } else { 100000 });
            let _ = j.set("scenario", s.sig());
            j
        } else {
            Json::Null
        };
        let mut c: Case = (o, j).into();
        // the scenario itself is the identity of the case
        c.hash = vh_common::fnv1a(s.sig().as_bytes());
        c
    });
    let (nb, bad) = tl::c10::build_table();
    let cov = rep.engine("build_table");
    cov.evaluations += nb;
    cov.events += nb;
    for i in 0..nb {
        let _ = cov.distinct.insert(i);
        let _ = cov.nontrivial.insert(i);
    }
    cov.sample(Json::from("build() for runtime x (wait, create, recycle) in {none, zero, finite}^3: refused exactly when a timeout is set without runtime"));
    let mut fs = Vec::new();
    for b in bad {
        fs.push(Finding { v: vh_common::Violation { prop: "C10", oracle: "build_table", msg: b.clone() }, sig: "C10/build_table".into(), replay: Json::obj().with("engine", "build_table").with("message", b) });
    }
    rep.add_findings(fs);
    // zero wait on the real clock
    let (nz, badz) = tl::c10::zero_wait_real_clock();
    let cov = rep.engine("zero_wait_real_clock");
    cov.evaluations += nz;
    cov.events += nz;
    for i in 0..nz {
        let _ = cov.distinct.insert(1000 + i);
        let _ = cov.nontrivial.insert(1000 + i);
    }
    cov.sample(Json::from("first poll of a zero-wait get on a real-clock runtime (managed: all slots in use; unmanaged: empty pool; configured and per-call): must be Ready(Timeout)"));
    let mut fs = Vec::new();
    for b in badz {
        fs.push(Finding { v: vh_common::Violation { prop: "C10", oracle: "zero_wait_suspended", msg: b.clone() }, sig: "C10/zero_wait_real_clock".into(), replay: Json::obj().with("engine", "zero_wait_real_clock").with("message", b) });
    }
    rep.add_findings(fs);
    // unmanaged pool
    let rt = tl::run::new_runtime();
    let mut fs = Vec::new();
    let table = utl::c10_table(&rt, true);
    let cov = rep.engine("uc10_table");
    for (sig, log, v) in table {
        cov.evaluations += 1;
        cov.events += log.len() as u64;
        let h = vh_common::fnv1a(sig.as_bytes());
        let _ = cov.distinct.insert(h);
        let _ = cov.nontrivial.insert(h);
        if sig.contains("finite") && sig.contains("before") {
            cov.sample(Json::obj().with("scenario", sig.as_str()).with("log", log.iter().map(|s| Json::from(s.as_str())).collect::<Vec<_>>()));
        }
        if let Some(v) = v {
            fs.push(Finding { sig: format!("C10/uc10/{}/{}", v.oracle, sig), v, replay: Json::obj().with("engine", "uc10_table").with("scenario", sig.as_str()).with("log", log.iter().map(|s| Json::from(s.as_str())).collect::<Vec<_>>()) });
        }
    }
    rep.add_findings(fs);
    rep.exhaustive = Some(true);
    let _ = rep.extra.set("exhaustive_scope", "managed: runtime x per-call (wait, create, recycle) in {none, zero, finite}^3 x slot freed {immediately, before, at, after the deadline, never} x {create path, recycle path} x step finishes {immediately, before, at, after its deadline, never}; build() x runtime x {none, zero, finite}^3; unmanaged: runtime x timeout {none, zero, finite} x {timeout_get, configured} x object available {immediately, before, at, after the deadline, never}");
}

/// Real-clock timeout scenarios for every runtime (rtreal.rs).
fn rt_real(args: &Args, rep: &mut Report, rounds: u64) {
    let seed = args.seed;
    let jobs = args.jobs.max(1).min(rounds.max(1) as usize);
    let outs = vh_common::parallel(jobs, move |wk| {
        let mut v = Vec::new();
        let mut i = wk as u64;
        while i < rounds {
            let outcomes = rtreal::round(seed, i);
            // "never returned" rests on a wall-clock watchdog: believed only if the same scenario hangs again
            let again: Vec<String> = if outcomes.iter().any(|o| o.hung) { rtreal::round(seed, i).into_iter().filter(|o| o.hung).map(|o| o.sig).collect() } else { Vec::new() };
            v.push((i, outcomes, again));
            i += jobs as u64;
        }
        v
    });
    let mut fs = Vec::new();
    let mut sampled = false;
    for (idx, outcomes, again) in outs.into_iter().flatten() {
        for o in outcomes {
            let mut o = o;
            if o.hung {
                if again.contains(&o.sig) {
                    o.violation = Some(("call_never_returned", format!("the call did not return within 10 s, twice in a row; log: {}", o.log.join(" | "))));
                } else {
                    o.inconclusive = Some("a call did not return within 10 s, but did when the scenario was repeated".into());
                }
            }
            let cov = rep.engine("rt_real");
            cov.evaluations += 1;
            cov.events += o.log.len() as u64;
            let h = vh_common::fnv1a(o.sig.as_bytes());
            let _ = cov.distinct.insert(h);
            let _ = cov.nontrivial.insert(h);
            // scenario name without the duration: which cells were run how often
            let cell: String = o.sig.split(';').filter(|p| !p.starts_with("d=")).collect::<Vec<_>>().join(";");
            *cov.counters.entry(cell).or_insert(0) += 1;
            if !sampled && o.sig.contains("AsyncStd1") && o.sig.ends_with("create_expires") {
                sampled = true;
                cov.sample(Json::obj().with("scenario", o.sig.as_str()).with("log", o.log.iter().map(|s| Json::from(s.as_str())).collect::<Vec<_>>()));
            }
            if let Some(why) = o.inconclusive {
                cov.inconclusive.push(format!("rt_real {}: {}", o.sig, why));
            }
            if let Some((oracle, msg)) = o.violation {
                let cellsig: String = o.sig.split(';').filter(|p| !p.starts_with("d=")).collect::<Vec<_>>().join(";");
                fs.push(Finding {
                    sig: format!("C10/rt_real/{}/{}", oracle, cellsig),
                    v: vh_common::Violation { prop: "C10", oracle, msg: format!("{} ({})", msg, o.sig) },
                    replay: Json::obj().with("engine", "rt_real").with("seed", seed).with("index", idx).with("scenario", o.sig.as_str()).with("log", o.log.iter().map(|s| Json::from(s.as_str())).collect::<Vec<_>>()),
                });
            }
        }
    }
    rep.add_findings(fs);
}

fn utl_random(args: &Args, rep: &mut Report, prop: &'static str, n: u64) {
    let p = utl::uprofile_for(prop);
    let seed = args.seed;
    run_cases(args, rep, "utl_random", format!("{}/utl", prop), n, move |rt, idx, log| {
        let o = utl::run_history(rt, &p, seed, idx, log);
        let j = if log { utl::history_json(&p, seed, idx, &o, if o.violations.is_empty() { 60 } else { 100000 }) } else { Json::Null };
        (o, j).into()
    });
}

/// One-preemption sweep over the managed pool's schedule points.
fn th_sweep_managed(args: &Args, rep: &mut Report, prop: &'static str) {
    use th::managed::*;
    let mut scenarios: Vec<Scenario> = Vec::new();
    for st in states() {
        for a in a_ops(&st) {
            let pts = discover(prop, st, a);
            for (point, hit) in pts {
                for b in b_ops(&st) {
                    scenarios.push(Scenario { state: st, a, point, hit, b });
                }
            }
        }
    }
    let scenarios = Arc::new(scenarios);
    let n = scenarios.len();
    let jobs = args.jobs.max(1);
    let outs = vh_common::parallel(jobs, {
        let scenarios = scenarios.clone();
        move |wk| {
            let mut cov = Coverage::default();
            let mut finds: Vec<Finding> = Vec::new();
            let mut i = wk;
            while i < n {
                let sc = &scenarios[i];
                let t_sc = std::time::Instant::now();
                let _case = vh_common::CaseGuard::new(format!("th_sweep {}", sc.sig()));
                let mut out = run_sweep(prop, sc);
                if std::env::var_os("VERIF_SLOW").is_some() && t_sc.elapsed() > std::time::Duration::from_millis(300) {
                    eprintln!("slow scenario {:?}: {}", t_sc.elapsed(), sc.sig());
                }
                // the stable-hang verdict rests on a wall-clock watchdog: believed only if it repeats
                if out.violations.first().map(|v| v.oracle == "stranded_waiter").unwrap_or(false) {
                    let again = run_sweep(prop, sc);
                    if again.violations.first().map(|v| v.oracle) != Some("stranded_waiter") {
                        cov.inconclusive.push(format!("stable-hang verdict of {} did not repeat", sc.sig()));
                        out = again;
                    }
                }
                cov.evaluations += 1;
                cov.events += out.events;
                let mut h = vh_common::Hasher::default();
                h.str(&sc.sig());
                let _ = cov.distinct.insert(h.0);
                if out.reached {
                    let _ = cov.nontrivial.insert(h.0);
                    cov.bump(&format!("window:{}", sc.point));
                    cov.bump(&format!("racing_op:{:?}", sc.b).split('(').next().unwrap().to_string());
                } else {
                    cov.bump("point_not_reached_A_waiting_or_finished");
                }
                let _ = cov.schedules.insert(out.trace_hash);
                let _ = cov.states.insert(out.end_state);
                if let Some(m) = out.inconclusive {
                    cov.inconclusive.push(m);
                }
                if out.foreign > 0 {
                    cov.bump("cases_stopped_by_oracle_of_other_property");
                }
                if !out.violations.is_empty() {
                    cov.bump("violating_cases");
                }
                if let Some(v) = out.violations.first() {
                    if finds.len() < 6 {
                        finds.push(Finding { v: v.clone(), sig: format!("{}/th_sweep/{}/{}", prop, v.oracle, sc.sig()), replay: out.desc.clone() });
                    }
                } else if cov.samples.is_empty() && out.reached {
                    cov.sample(out.desc);
                }
                i += jobs;
            }
            (cov, finds)
        }
    });
    for (cov, finds) in outs {
        rep.engine("th_sweep").merge(cov);
        rep.add_findings(finds);
    }
}

fn th_chaos_managed(args: &Args, rep: &mut Report, prop: &'static str, runs: u64, hammer: bool) {
    use th::managed::*;
    let seed = args.seed;
    // chaos runs use several threads each: run a few at a time
    let jobs = (args.jobs / 4).max(1);
    let outs = vh_common::parallel(jobs, move |wk| {
        let mut cov = Coverage::default();
        let mut finds: Vec<Finding> = Vec::new();
        let mut i = wk as u64;
        while i < runs {
            let mut rng = vh_common::Rng::derive(seed, vh_common::fnv1a(prop.as_bytes()) ^ 0x7c, i);
            let with_limit_ops = matches!(prop, "C06" | "C07" | "C09" | "C11");
            let cfg = ChaosCfg {
                threads: rng.range(2, 8) as usize,
                ops: rng.range(20, 120) as usize,
                max_size: rng.range(0, 4) as usize,
                resize: with_limit_ops && prop != "C06" || (prop == "C06" && rng.chance(1, 3)),
                close: matches!(prop, "C06") || (with_limit_ops && rng.chance(1, 4)),
                retain_take: prop != "C06" || rng.chance(1, 2),
                p_fail: *rng.pick(&[0u32, 5, 20, 40]),
                hammer,
            };
            let cfg = if hammer { ChaosCfg { threads: rng.range(4, 24) as usize, ops: rng.range(100, 600) as usize, max_size: rng.range(1, 4) as usize, ..cfg } } else { cfg };
            let _case = vh_common::CaseGuard::new(format!("th_chaos round {}", i));
            let mut out = run_chaos(prop, cfg, seed.wrapping_mul(7919).wrapping_add(i));
            if hammer {
                // no trace at full speed: a case is identified by its configuration and what was observed
                out.trace_hash = vh_common::fnv1a(format!("{:?}/{}/{}/{}", cfg, out.events, out.end_state, i).as_bytes());
            }
            cov.evaluations += 1;
            cov.events += out.events;
            let _ = cov.distinct.insert(out.trace_hash);
            if out.nontrivial {
                let _ = cov.nontrivial.insert(out.trace_hash);
            }
            let _ = cov.schedules.insert(out.trace_hash);
            let _ = cov.states.insert(out.end_state);
            cov.add("schedule_points_hit", out.points as u64);
            if out.foreign > 0 {
                cov.bump("cases_stopped_by_oracle_of_other_property");
            }
            if !out.violations.is_empty() {
                cov.bump("violating_cases");
            }
            if let Some(v) = out.violations.first() {
                if finds.len() < 4 {
                    finds.push(Finding { v: v.clone(), sig: format!("{}/{}/{}", prop, if hammer { "th_hammer" } else { "th_chaos" }, v.oracle), replay: out.desc.clone() });
                }
            } else if cov.samples.is_empty() && out.nontrivial {
                cov.sample(out.desc);
            }
            i += jobs as u64;
        }
        (cov, finds)
    });
    for (cov, finds) in outs {
        rep.engine(if hammer { "th_hammer" } else { "th_chaos" }).merge(cov);
        rep.add_findings(finds);
    }
}

fn th_sweep_unmanaged(args: &Args, rep: &mut Report, prop: &'static str) {
    use th::unmanaged::*;
    let mut scenarios: Vec<UScenario> = Vec::new();
    for st in ustates() {
        for a in ua_ops(&st) {
            for (point, hit) in udiscover(prop, st, a) {
                for b in ub_ops(&st) {
                    scenarios.push(UScenario { state: st, a, point, hit, b });
                }
            }
        }
    }
    let scenarios = Arc::new(scenarios);
    let n = scenarios.len();
    let jobs = args.jobs.max(1);
    let outs = vh_common::parallel(jobs, {
        let scenarios = scenarios.clone();
        move |wk| {
            let mut cov = Coverage::default();
            let mut finds: Vec<Finding> = Vec::new();
            let mut i = wk;
            while i < n {
                let sc = &scenarios[i];
                let _case = vh_common::CaseGuard::new(format!("uth_sweep {}", sc.sig()));
                let mut out = run_usweep(prop, sc);
                if out.violations.first().map(|v| v.oracle == "stranded_caller").unwrap_or(false) {
                    let again = run_usweep(prop, sc);
                    if again.violations.first().map(|v| v.oracle) != Some("stranded_caller") {
                        cov.inconclusive.push(format!("stable-hang verdict of {} did not repeat", sc.sig()));
                        out = again;
                    }
                }
                cov.evaluations += 1;
                cov.events += out.events;
                let mut h = vh_common::Hasher::default();
                h.str(&sc.sig());
                let _ = cov.distinct.insert(h.0);
                if out.reached {
                    let _ = cov.nontrivial.insert(h.0);
                    cov.bump(&format!("window:{}", sc.point));
                    cov.bump(&format!("racing_op:{:?}", sc.b));
                } else {
                    cov.bump("point_not_reached_A_waiting_or_finished");
                }
                let _ = cov.schedules.insert(out.trace_hash);
                let _ = cov.states.insert(out.end_state);
                if let Some(m) = out.inconclusive {
                    cov.inconclusive.push(m);
                }
                if out.foreign > 0 {
                    cov.bump("cases_stopped_by_oracle_of_other_property");
                }
                if !out.violations.is_empty() {
                    cov.bump("violating_cases");
                }
                if let Some(v) = out.violations.first() {
                    if finds.len() < 6 {
                        finds.push(Finding { v: v.clone(), sig: format!("{}/uth_sweep/{}/{}", prop, v.oracle, sc.sig()), replay: out.desc.clone() });
                    }
                } else if cov.samples.is_empty() && out.reached {
                    cov.sample(out.desc);
                }
                i += jobs;
            }
            (cov, finds)
        }
    });
    for (cov, finds) in outs {
        rep.engine("uth_sweep").merge(cov);
        rep.add_findings(finds);
    }
}

fn th_chaos_unmanaged(args: &Args, rep: &mut Report, prop: &'static str, runs: u64, hammer: bool) {
    use th::unmanaged::*;
    let seed = args.seed;
    let jobs = (args.jobs / 4).max(1);
    let outs = vh_common::parallel(jobs, move |wk| {
        let mut cov = Coverage::default();
        let mut finds: Vec<Finding> = Vec::new();
        let mut i = wk as u64;
        while i < runs {
            let mut rng = vh_common::Rng::derive(seed, vh_common::fnv1a(prop.as_bytes()) ^ 0x7d, i);
            let threads = rng.range(2, 8) as usize;
            let ops = rng.range(20, 150) as usize;
            let max_size = rng.range(0, 4) as usize;
            let with_close = prop == "C12" || rng.chance(1, 10);
            let (threads, ops, max_size) = if hammer { (rng.range(4, 32) as usize, rng.range(100, 800) as usize, rng.range(1, 8) as usize) } else { (threads, ops, max_size) };
            let _case = vh_common::CaseGuard::new(format!("uth_chaos round {}", i));
            let mut out = run_uchaos(prop, threads, ops, max_size, with_close, seed.wrapping_mul(7919).wrapping_add(i), hammer);
            if hammer {
                out.trace_hash = vh_common::fnv1a(format!("{}/{}/{}/{}/{}/{}", threads, ops, max_size, out.events, out.end_state, i).as_bytes());
            }
            cov.evaluations += 1;
            cov.events += out.events;
            let _ = cov.distinct.insert(out.trace_hash);
            if out.nontrivial {
                let _ = cov.nontrivial.insert(out.trace_hash);
            }
            let _ = cov.schedules.insert(out.trace_hash);
            let _ = cov.states.insert(out.end_state);
            cov.add("schedule_points_hit", out.points as u64);
            if out.foreign > 0 {
                cov.bump("cases_stopped_by_oracle_of_other_property");
            }
            if !out.violations.is_empty() {
                cov.bump("violating_cases");
            }
            if let Some(v) = out.violations.first() {
                if finds.len() < 4 {
                    finds.push(Finding { v: v.clone(), sig: format!("{}/{}/{}", prop, if hammer { "uth_hammer" } else { "uth_chaos" }, v.oracle), replay: out.desc.clone() });
                }
            } else if cov.samples.is_empty() && out.nontrivial {
                cov.sample(out.desc);
            }
            i += jobs as u64;
        }
        (cov, finds)
    });
    for (cov, finds) in outs {
        rep.engine(if hammer { "uth_hammer" } else { "uth_chaos" }).merge(cov);
        rep.add_findings(finds);
    }
}

/// Workload small enough for Miri (also used under ThreadSanitizer with a larger --scale).
fn sanitizer_workload(args: &Args, prop: &'static str) -> i32 {
    let mut bad = 0;
    let mut runs = 0;
    let n = (2.0 * args.scale).max(1.0) as u64;
    let big = args.scale > 4.0;
    for i in 0..n {
        let seed = args.seed.wrapping_mul(31).wrapping_add(i);
        if matches!(prop, "C05" | "C12") {
            let out = th::unmanaged::run_uchaos(prop, 3, if big { 60 } else { 7 }, (seed % 3) as usize, prop == "C12" || seed % 4 == 0, seed, false);
            runs += 1;
            for v in &out.violations {
                println!("VIOLATION-CANDIDATE property={} sig={}/san/uth_chaos/{} replay=- :: {} :: {}", prop, prop, v.oracle, v.oracle, v.msg);
                bad += 1;
            }
            println!("SAN-RUN engine=uth_chaos seed={} points={} events={}", seed, out.points, out.events);
            for close in [false, true] {
                if close != (prop == "C12") && !big {
                    continue;
                }
                let r = th::race::unmanaged_race(prop, seed, close);
                runs += 1;
                for v in &r.violations {
                    println!("VIOLATION-CANDIDATE property={} sig={}/san/uth_race/{} replay=- :: {} :: {}", prop, prop, v.oracle, v.oracle, v.msg);
                    bad += 1;
                }
                println!("SAN-RUN engine=uth_race close={} seed={} events={}", close, seed, r.events);
            }
        } else {
            let cfg = th::managed::ChaosCfg {
                threads: 3,
                ops: if big { 60 } else { 6 },
                max_size: (seed % 3) as usize,
                resize: matches!(prop, "C07") || (prop == "C06" && seed % 2 == 0),
                close: prop == "C06",
                retain_take: true,
                p_fail: 25,
                hammer: false,
            };
            let out = th::managed::run_chaos(prop, cfg, seed);
            runs += 1;
            for v in &out.violations {
                println!("VIOLATION-CANDIDATE property={} sig={}/san/th_chaos/{} replay=- :: {} :: {}", prop, prop, v.oracle, v.oracle, v.msg);
                bad += 1;
            }
            println!("SAN-RUN engine=th_chaos seed={} points={} events={}", seed, out.points, out.events);
            if matches!(prop, "C06" | "C07" | "C01" | "C02") {
                let r = th::race::managed_race(prop, seed, prop == "C06");
                runs += 1;
                for v in &r.violations {
                    println!("VIOLATION-CANDIDATE property={} sig={}/san/th_race/{} replay=- :: {} :: {}", prop, prop, v.oracle, v.oracle, v.msg);
                    bad += 1;
                }
                println!("SAN-RUN engine=th_race seed={} events={}", seed, r.events);
            }
            if prop == "C06" {
                // objects that outlive every pool handle are still usable and droppable
                let (ok, msg) = th::managed::outlive_scenario();
                runs += 1;
                println!("SAN-RUN engine=outlive ok={}", ok);
                if !ok {
                    println!("VIOLATION-CANDIDATE property=C06 sig=C06/san/outlive replay=- :: outlive :: {}", msg);
                    bad += 1;
                }
            }
        }
    }
    println!("SAN-SUMMARY property={} runs={} violations={}", prop, runs, bad);
    if bad > 0 {
        1
    } else {
        0
    }
}

/// Lean full-speed race rounds (th/race.rs).
fn th_race(args: &Args, rep: &mut Report, prop: &'static str, rounds: u64, unmanaged: bool, close: bool) {
    let seed = args.seed;
    let jobs = (args.jobs / 4).max(1);
    let engine = if unmanaged { "uth_race" } else { "th_race" };
    let outs = vh_common::parallel(jobs, move |wk| {
        let mut cov = Coverage::default();
        let mut finds: Vec<Finding> = Vec::new();
        let mut i = wk as u64;
        while i < rounds {
            let s = seed.wrapping_mul(104729).wrapping_add(i);
            let _case = vh_common::CaseGuard::new(format!("{} round {} (seed {})", engine, i, s));
            let out = match std::panic::catch_unwind(|| if unmanaged { th::race::unmanaged_race(prop, s, close) } else { th::race::managed_race(prop, s, close) }) {
                Ok(o) => o,
                Err(p) => {
                    let msg = format!("a pool call at rest panicked: {}", vh_common::panic_message(&*p));
                    th::race::RaceOut {
                        violations: vec![vh_common::Violation { prop, oracle: "later_call_panicked", msg: msg.clone() }],
                        desc: Json::obj().with("engine", "race").with("seed", s).with("case", msg),
                        events: 1,
                        hash: s,
                    }
                }
            };
            cov.evaluations += 1;
            cov.events += out.events;
            let _ = cov.distinct.insert(out.hash);
            let _ = cov.nontrivial.insert(out.hash);
            let _ = cov.schedules.insert(out.hash);
            if !out.violations.is_empty() {
                cov.bump("violating_cases");
            }
            if let Some(v) = out.violations.first() {
                cov.bump("rounds_with_violation");
                if finds.len() < 4 {
                    finds.push(Finding { v: v.clone(), sig: format!("{}/{}/{}", prop, if unmanaged { "uth_race" } else { "th_race" }, v.oracle), replay: out.desc.clone() });
                }
            } else if cov.samples.is_empty() {
                cov.sample(out.desc);
            }
            i += jobs as u64;
        }
        (cov, finds)
    });
    for (cov, finds) in outs {
        rep.engine(engine).merge(cov);
        rep.add_findings(finds);
    }
}

fn rule_for(prop: &str) -> &'static str {
    match prop {
        "C01" => "cases = seeded random task-level histories + thread-level sweep scenarios + chaos runs; distinct = hash of the full event log (sweep: the scenario; chaos: the schedule-point trace); non-trivial (tl) = at least one admission happened with the pool one below its limit, after the caller had to wait, or with other callers waiting; (sweep) = thread A was actually parked at the window",
        "C02" => "distinct = hash of the event log; non-trivial (tl) = the history contains a failed, abandoned or panicking get AND a quiescent point at which a caller was blocked waiting for a slot; (sweep) = A parked at the window; (chaos) = a blocked get was cancelled or the pool was filled",
        "C03" => "matrix cases = random prefix, then one get() driven to a chosen suspension point and abandoned in a chosen way, then random suffix + capacity probe; distinct = hash of the event log; non-trivial = an abandonment (drop / enclosing timeout / injected panic) actually happened at the chosen point",
        "C04" => "enumeration cases = one path of the outcome tree of one get(); random cases = task-level histories; distinct = hash of the event log; non-trivial = at least one callback ended in an error, a panic or was dropped",
        "C05" | "C12" => "distinct = hash of the event log (sweep: the scenario); non-trivial (utl) = at least one caller was blocked and the pool was full (C05) or closed (C12) at some point; (sweep) = A parked at the window",
        "C06" => "distinct = hash of the event log; non-trivial (tl) = close() was issued while a getter was suspended or an object was checked out; (sweep) = A parked at the window",
        "C07" => "distinct = hash of the event log; non-trivial (tl) = at least one shrink and at least one admission in the same history; (sweep) = A parked at the window",
        "C08" => "distinct = hash of the event log; non-trivial = a get() popped from an idle queue holding at least two objects (the order clause had a choice to get wrong)",
        "C09" => "distinct = hash of the event log; non-trivial = a retain() that both kept and removed objects, or a take()",
        "C10" => "table cases = one directed scenario each (exhaustive); random cases = task-level histories with random timeouts and clock advances; non-trivial = a timeout or NoRuntimeSpecified result occurred, or the step under test did not finish immediately",
        "C11" => "distinct = hash of the event log; non-trivial = status() was compared exactly at a quiescent point of a history that had blocked getters, a shrink or an abandonment",
        "C13" => "distinct = hash of the event log; non-trivial = at least one object was handed out a second time",
        _ => "distinct = hash of the full event log of a case; non-trivial = the case contains at least one event relevant to the property (see DESIGN.md section 4)",
    }
}

fn main() {
    vh_common::install_panic_hook();
    let args = Args::parse();
    vh_common::install_hang_watchdog(&args.prop);
    if args.prop == "replay" {
        replay(&args);
        return;
    }
    let prop: &'static str = leak(&args.prop);
    let level = match prop {
        "C03" | "C04" | "C10" => "fault_enumeration",
        _ => "exploration",
    };
    let mut rep = Report::new(&args, level, rule_for(prop));
    let sc = |q: f64, t: f64| (args.tier.pick(q, t) * args.scale) as u64;
    if args.only.as_deref() == Some("miri") {
        // small thread-level workloads for the Miri / TSan layer (one process = one Miri seed)
        std::process::exit(sanitizer_workload(&args, prop));
    }
    match prop {
        "C05" | "C12" => {
            if args.engine_enabled("utl") {
                utl_random(&args, &mut rep, prop, sc(30_000.0, 1_000_000.0));
            }
            if prop == "C05" && args.engine_enabled("u_big_pool") {
                // sizes far away from the small ones of the histories (a power of two and its neighbours, and more)
                let mut fs = Vec::new();
                for n in [255usize, 256, 257, 4095, 4096, 4097, 5000, 70_000] {
                    let cov = rep.engine("u_big_pool");
                    cov.evaluations += 1;
                    cov.events += 2 * n as u64;
                    let _ = cov.distinct.insert(n as u64);
                    let _ = cov.nontrivial.insert(n as u64);
                    for v in utl::big_pool(n) {
                        cov.bump("violating_cases");
                        fs.push(Finding { sig: format!("C05/u_big_pool/{}/{}", v.oracle, n), replay: Json::obj().with("engine", "u_big_pool").with("max_size", n as u64).with("message", v.msg.as_str()), v });
                    }
                }
                rep.engine("u_big_pool").sample(Json::from("pools of 255 ... 70000 slots are filled with try_add / add, must take exactly max_size objects and give them all back"));
                rep.add_findings(fs);
            }
            if args.engine_enabled("uth_sweep") {
                th_sweep_unmanaged(&args, &mut rep, prop);
            }
            if args.engine_enabled("uth_chaos") {
                th_chaos_unmanaged(&args, &mut rep, prop, sc(150.0, 3000.0), false);
            }
            if args.engine_enabled("uth_race") {
                // close() against a returning object is a window of a few instructions: C12 gets three times the rounds
                let n = if prop == "C12" { sc(900.0, 9_000.0) } else { sc(300.0, 4_000.0) };
                th_race(&args, &mut rep, prop, n, true, prop == "C12");
            }
            if args.engine_enabled("uth_hammer") {
                th_chaos_unmanaged(&args, &mut rep, prop, sc(250.0, 6000.0), true);
            }
        }
        "C03" => {
            if args.engine_enabled("tl_c03") {
                tl_c03(&args, &mut rep, sc(20_000.0, 600_000.0));
            }
            if args.engine_enabled("tl") {
                tl_random(&args, &mut rep, prop, sc(20_000.0, 400_000.0));
            }
            // abandoned and failing gets at full speed on several threads: the figures at rest afterwards
            if args.engine_enabled("th_race") {
                th_race(&args, &mut rep, prop, sc(300.0, 4_000.0), false, false);
            }
        }
        "C04" => {
            if args.engine_enabled("tl_c04") {
                match args.tier {
                    vh_common::Tier::Quick => tl_c04_enum(&args, &mut rep, 1, 2),
                    vh_common::Tier::Thorough => tl_c04_enum(&args, &mut rep, 2, 3),
                }
            }
            if args.engine_enabled("tl") {
                tl_random(&args, &mut rep, prop, sc(40_000.0, 800_000.0));
            }
        }
        "C10" => {
            if args.engine_enabled("tl_c10") {
                tl_c10_table(&args, &mut rep);
            }
            if args.engine_enabled("tl") {
                tl_random(&args, &mut rep, prop, sc(20_000.0, 400_000.0));
            }
            if args.engine_enabled("utl") {
                utl_random(&args, &mut rep, prop, sc(20_000.0, 400_000.0));
            }
            // the zero-wait clause ("... or Closed") against a close() on another thread
            if args.engine_enabled("th_sweep") {
                th_sweep_managed(&args, &mut rep, prop);
            }
            if args.engine_enabled("rt_real") {
                rt_real(&args, &mut rep, sc(16.0, 400.0).max(1));
            }
        }
        _ => {
            if args.engine_enabled("tl") {
                tl_random(&args, &mut rep, prop, sc(40_000.0, 800_000.0));
            }
            if matches!(prop, "C01" | "C02" | "C06" | "C07" | "C09" | "C11") {
                if args.engine_enabled("th_sweep") {
                    th_sweep_managed(&args, &mut rep, prop);
                }
                if args.engine_enabled("th_chaos") {
                    th_chaos_managed(&args, &mut rep, prop, sc(150.0, 3000.0), false);
                }
                if args.engine_enabled("th_race") && matches!(prop, "C01" | "C02" | "C06" | "C07" | "C09" | "C11") {
                    // close() racing a returning object is a window of a few instructions: C06 gets three times the rounds
                    let n = if prop == "C06" { sc(900.0, 9_000.0) } else { sc(300.0, 4_000.0) };
                    th_race(&args, &mut rep, prop, n, false, prop == "C06");
                }
                if args.engine_enabled("th_hammer") {
                    th_chaos_managed(&args, &mut rep, prop, sc(250.0, 6000.0), true);
                }
            }
            // "a waiting get() is completed as soon as capacity is free, never panics, never deadlocks" is
            // promised of the unmanaged pool's get() as well
            if prop == "C02" {
                if args.engine_enabled("utl") {
                    utl_random(&args, &mut rep, prop, sc(20_000.0, 400_000.0));
                }
                if args.engine_enabled("uth_race") {
                    th_race(&args, &mut rep, prop, sc(200.0, 2500.0), true, false);
                }
            }
            // status() of the unmanaged pool is the same `Status` and the same promise
            if matches!(prop, "C01" | "C08") && args.engine_enabled("m_big_pool") {
                let mut fs = Vec::new();
                for (k, n) in [255usize, 256, 257, 4096, 4097, 70_000].into_iter().enumerate() {
                    let cov = rep.engine("m_big_pool");
                    cov.evaluations += 1;
                    cov.events += 4 * n as u64;
                    let _ = cov.distinct.insert(n as u64);
                    let _ = cov.nontrivial.insert(n as u64);
                    for v in th::race::managed_big_pool(prop, n, k % 2 == 1) {
                        cov.bump("violating_cases");
                        fs.push(Finding { sig: format!("{}/m_big_pool/{}/{}", prop, v.oracle, n), replay: Json::obj().with("engine", "m_big_pool").with("max_size", n as u64).with("message", v.msg.as_str()), v });
                    }
                }
                rep.engine("m_big_pool").sample(Json::from("pools of 255 ... 70000 slots: exactly max_size objects can be out at once, twice in a row, with max_size creations in all"));
                rep.add_findings(fs);
            }
            // the configured route to a queue mode (serde / config crate)
            if prop == "C08" && args.engine_enabled("m_queue_mode_names") {
                let out = qmode::run(prop);
                let cov = rep.engine("m_queue_mode_names");
                cov.evaluations += out.cases;
                cov.events += out.cases * 4;
                for k in 0..out.cases {
                    let _ = cov.distinct.insert(k);
                }
                for k in 0..out.accepted {
                    let _ = cov.nontrivial.insert(k);
                }
                cov.add("spellings_accepted", out.accepted);
                cov.add("spellings_refused", out.refused);
                cov.add("violating_cases", out.violations.len() as u64);
                cov.sample(Json::from("every spelling of a queue mode that serde_json or the config crate accepts selects the mode it names: the pool built from the deserialised PoolConfig offers object 0 (Fifo) / object 1 (Lifo) after 0 and 1 were returned in that order"));
                let fs: Vec<Finding> = out.violations.into_iter().take(4).map(|v| Finding { sig: format!("{}/m_queue_mode_names/{}", prop, v.oracle), replay: Json::obj().with("engine", "m_queue_mode_names").with("message", v.msg.as_str()), v }).collect();
                rep.add_findings(fs);
            }
            // lazy creation against lock contention: full-speed rounds only (no schedule point can sit between
            // a failed try_lock and the decision to create)
            if prop == "C08" && args.engine_enabled("th_race") {
                th_race(&args, &mut rep, prop, sc(300.0, 4_000.0), false, false);
            }
            if prop == "C11" && args.engine_enabled("utl") {
                utl_random(&args, &mut rep, prop, sc(20_000.0, 400_000.0));
            }
            if prop == "C11" && args.engine_enabled("uth_race") {
                th_race(&args, &mut rep, prop, sc(300.0, 4_000.0), true, false);
                // the figures of a closed pool at rest (calls that overlapped close() must leave nothing behind)
                th_race(&args, &mut rep, prop, sc(120.0, 1_600.0), true, true);
            }
        }
    }
    let code = rep.finish(&args);
    std::process::exit(code);
}

fn replay(args: &Args) {
    let path = args.replay.clone().expect("replay file");
    let txt = std::fs::read_to_string(&path).expect("read replay file");
    let j = vh_common::parse_json(&txt).expect("parse replay file");
    let engine = j.get("engine").and_then(Json::as_str).unwrap_or("");
    let prop = j.get("profile_prop").and_then(Json::as_str).unwrap_or("C01").to_string();
    let seed = j.get("seed").and_then(Json::as_i64).unwrap_or(1) as u64;
    let idx = j.get("index").and_then(Json::as_i64).unwrap_or(0) as u64;
    let rt = tl::run::new_runtime();
    let (log, viols) = match engine {
        "tl" => {
            let p = tl::run::profile_for(&prop);
            let out = tl::run::run_history(&rt, &p, seed, idx, true);
            (out.log, out.violations)
        }
        "tl_c03" => {
            let out = tl::c03::run_case(&rt, seed, idx, true);
            (out.log, out.violations)
        }
        "tl_c10" => {
            let s = tl::c10::scenarios()[idx as usize];
            let out = tl::c10::run_scn(&rt, &s, true);
            (out.log, out.violations)
        }
        "tl_c04" => {
            let geti = |k: &str| j.get(k).and_then(Json::as_i64).unwrap_or(0) as usize;
            let cfgs = tl::c04::configs(geti("max_hooks"), geti("max_idle"));
            let c = &cfgs[geti("config_index")];
            let prefix: Vec<u8> = j.get("prefix").and_then(Json::as_arr).map(|a| a.iter().filter_map(Json::as_i64).map(|x| x as u8).collect()).unwrap_or_default();
            let suspend_ok = matches!(j.get("suspend_ok"), Some(Json::Bool(true)));
            let (out, _) = tl::c04::run_path(&rt, c, &prefix, suspend_ok, true);
            (out.log, out.violations)
        }
        "utl" => {
            let p = utl::uprofile_for(&prop);
            let out = utl::run_history(&rt, &p, seed, idx, true);
            (out.log, out.violations)
        }
        e => {
            eprintln!("unknown engine {:?} in replay file", e);
            std::process::exit(3);
        }
    };
    for l in &log {
        println!("{}", l);
    }
    if viols.is_empty() {
        println!("REPLAY: no violation reproduced");
    } else {
        for v in &viols {
            println!("REPLAY: reproduced {} {} :: {}", v.prop, v.oracle, v.msg);
        }
        std::process::exit(1);
    }
}
