//! Thread-level engine for the managed pool.

use std::collections::BTreeMap;
use std::future::Future;
use std::panic::{catch_unwind, AssertUnwindSafe};
use std::sync::atomic::{AtomicBool, AtomicIsize, AtomicUsize, Ordering};
use std::sync::{Arc, Mutex};
use std::time::Duration;

use deadpool::managed::{self, Metrics, Object, Pool, PoolError, RecycleError, RecycleResult, TimeoutType, Timeouts};
use vh_common::{panic_message, Json, Rng, Violation};

use super::*;

pub struct OInfo {
    pub detach: u32,
    pub destructed: bool,
    pub external: bool,
}

/// Ground truth shared by all threads of a scenario.
pub struct Sh {
    pub prop: &'static str,
    /// objects the pool is responsible for + creates in flight
    pub occupancy: AtomicIsize,
    /// limit for the occupancy monitor (isize::MAX once resize/close is involved)
    pub limit: AtomicIsize,
    pub holders: AtomicIsize,
    pub constructed: AtomicUsize,
    pub destructed: AtomicUsize,
    pub objs: Mutex<Vec<OInfo>>,
    pub violations: Mutex<Vec<Violation>>,
    pub foreign: AtomicUsize,
    pub recycle_fail: AtomicUsize,
    pub create_fail: AtomicUsize,
    pub chaos: AtomicBool,
    pub p_fail: u32,
    pub callbacks: AtomicUsize,
}

impl Sh {
    pub fn new(prop: &'static str, limit: isize, chaos: bool, p_fail: u32) -> Arc<Sh> {
        Arc::new(Sh {
            prop,
            occupancy: AtomicIsize::new(0),
            limit: AtomicIsize::new(limit),
            holders: AtomicIsize::new(0),
            constructed: AtomicUsize::new(0),
            destructed: AtomicUsize::new(0),
            objs: Mutex::new(Vec::new()),
            violations: Mutex::new(Vec::new()),
            foreign: AtomicUsize::new(0),
            recycle_fail: AtomicUsize::new(0),
            create_fail: AtomicUsize::new(0),
            chaos: AtomicBool::new(chaos),
            p_fail,
            callbacks: AtomicUsize::new(0),
        })
    }
    pub fn viol(&self, props: &[&'static str], oracle: &'static str, msg: String) {
        if props.contains(&self.prop) || props.contains(&"*") {
            self.violations.lock().unwrap().push(Violation { prop: self.prop, oracle, msg });
        } else {
            let _ = self.foreign.fetch_add(1, Ordering::SeqCst);
        }
    }
    /// The harness is about to take the object out of the pool's responsibility.
    pub fn externalise(&self, id: u32) {
        let mut o = self.objs.lock().unwrap();
        if !o[id as usize].external {
            o[id as usize].external = true;
            let _ = self.occupancy.fetch_sub(1, Ordering::SeqCst);
        }
    }
    fn take_budget(a: &AtomicUsize) -> bool {
        a.fetch_update(Ordering::SeqCst, Ordering::SeqCst, |x| if x > 0 { Some(x - 1) } else { None }).is_ok()
    }
}

pub struct TObj {
    pub id: u32,
    sh: Arc<Sh>,
}
impl Drop for TObj {
    fn drop(&mut self) {
        let mut o = self.sh.objs.lock().unwrap();
        let i = &mut o[self.id as usize];
        i.destructed = true;
        if !i.external {
            let _ = self.sh.occupancy.fetch_sub(1, Ordering::SeqCst);
        }
        drop(o);
        let _ = self.sh.destructed.fetch_add(1, Ordering::SeqCst);
    }
}

#[derive(Debug, Clone, Copy)]
pub struct TErr;

pub struct TManager {
    pub sh: Arc<Sh>,
}

impl managed::Manager for TManager {
    type Type = TObj;
    type Error = TErr;

    fn create(&self) -> impl Future<Output = Result<TObj, TErr>> + Send {
        let sh = self.sh.clone();
        let _ = sh.callbacks.fetch_add(1, Ordering::Relaxed);
        let prev = sh.occupancy.fetch_add(1, Ordering::SeqCst);
        let limit = sh.limit.load(Ordering::SeqCst);
        if prev + 1 > limit {
            sh.viol(&["C01"], "create_over_limit", format!("create called while {} objects exist or are being created (max_size {})", prev, limit));
        }
        async move {
            if sh.chaos.load(Ordering::Relaxed) {
                chaos_delay();
            }
            let fail = Sh::take_budget(&sh.create_fail) || (sh.chaos.load(Ordering::Relaxed) && thread_rng(|r| r.below(100)) < sh.p_fail as u64);
            if fail {
                let _ = sh.occupancy.fetch_sub(1, Ordering::SeqCst);
                return Err(TErr);
            }
            let id = {
                let mut o = sh.objs.lock().unwrap();
                o.push(OInfo { detach: 0, destructed: false, external: false });
                (o.len() - 1) as u32
            };
            let _ = sh.constructed.fetch_add(1, Ordering::SeqCst);
            Ok(TObj { id, sh })
        }
    }

    fn recycle(&self, _obj: &mut TObj, _m: &Metrics) -> impl Future<Output = RecycleResult<TErr>> + Send {
        let sh = self.sh.clone();
        let _ = sh.callbacks.fetch_add(1, Ordering::Relaxed);
        async move {
            if sh.chaos.load(Ordering::Relaxed) {
                chaos_delay();
            }
            let fail = Sh::take_budget(&sh.recycle_fail) || (sh.chaos.load(Ordering::Relaxed) && thread_rng(|r| r.below(100)) < sh.p_fail as u64);
            if fail {
                Err(RecycleError::message("scripted"))
            } else {
                Ok(())
            }
        }
    }

    fn detach(&self, obj: &mut TObj) {
        let _ = self.sh.callbacks.fetch_add(1, Ordering::Relaxed);
        self.sh.objs.lock().unwrap()[obj.id as usize].detach += 1;
        // user code, called without the pool's lock: a schedule point like any other (the object still
        // exists here; whatever the pool has already released can be used by another thread now)
        if InRetain::active() {
            // retain() calls detach with the pool's lock held: handled like a parked predicate (the partner
            // operation runs on a helper thread and may have to wait for A)
            pseudo_point("pred:detach");
        } else {
            pseudo_point("cb:detach");
        }
    }
}

pub type TPool = Pool<TManager>;
pub type TObject = Object<TManager>;

const NB: Timeouts = Timeouts { wait: Some(Duration::ZERO), create: None, recycle: None };

pub fn build(sh: &Arc<Sh>, max: usize) -> TPool {
    build_mode(sh, max, false)
}

/// Both queue modes are exercised: nothing the thread-level oracles look at depends on the order of reuse.
pub fn build_mode(sh: &Arc<Sh>, max: usize, lifo: bool) -> TPool {
    Pool::builder(TManager { sh: sh.clone() }).max_size(max).queue_mode(if lifo { managed::QueueMode::Lifo } else { managed::QueueMode::Fifo }).build().unwrap()
}

/// Blocking get that can be cancelled by the controller.
fn get_blocking(pool: &TPool, cancel: &AtomicBool, progress: &AtomicUsize, pending: &AtomicBool) -> Option<Result<TObject, PoolError<TErr>>> {
    let waker = std::task::Waker::from(Arc::new(WakeThread(std::thread::current())));
    let mut cx = std::task::Context::from_waker(&waker);
    let mut fut = std::pin::pin!(pool.get());
    loop {
        let _ = progress.fetch_add(1, Ordering::SeqCst);
        if let std::task::Poll::Ready(v) = fut.as_mut().poll(&mut cx) {
            return Some(v);
        }
        pending.store(true, Ordering::SeqCst);
        if cancel.load(Ordering::SeqCst) {
            return None;
        }
        std::thread::park_timeout(Duration::from_millis(if cfg!(miri) { 0 } else { 2 }));
        if cfg!(miri) {
            std::thread::yield_now();
        }
    }
}

struct WakeThread(std::thread::Thread);
impl std::task::Wake for WakeThread {
    fn wake(self: Arc<Self>) {
        self.0.unpark();
    }
}

fn get_nb(pool: &TPool) -> Result<TObject, PoolError<TErr>> {
    poll_once(pool.timeout_get(&NB)).expect("a zero-wait get with an immediate manager never suspends")
}

// ------------------------------------------------------------------ sweep

#[derive(Clone, Copy, Debug, PartialEq, Eq)]
pub enum AOp {
    Get { recycle_fail: bool, create_fail: bool },
    GetNb,
    Return,
    /// the caller panics while it holds the object: the object is dropped during unwinding
    ReturnPanicking,
    Take,
    Resize(usize),
    Close,
    RetainFalse,
    /// retain whose predicate parks (pseudo point "pred:first") while the pool's lock is held
    RetainGate { keep: bool },
}

#[derive(Clone, Copy, Debug, PartialEq, Eq)]
pub enum BOp {
    GetNbHold,
    GetNbReturn,
    ReturnMain,
    TakeMain,
    RetainFalse,
    RetainTrue,
    Resize(usize),
    Close,
    Status,
    WaitThenCancel,
    CloneDrop,
}

#[derive(Clone, Copy, Debug, PartialEq, Eq)]
pub struct State {
    pub max: usize,
    pub idle: usize,
    pub main_held: usize,
    /// a third thread is blocked in get() while A and B race
    pub waiter: bool,
}

#[derive(Clone, Debug)]
pub struct Scenario {
    pub state: State,
    pub a: AOp,
    pub point: &'static str,
    pub hit: usize,
    pub b: BOp,
}

impl Scenario {
    pub fn sig(&self) -> String {
        format!("max={};idle={};held={}{};A={:?}@{}#{};B={:?}", self.state.max, self.state.idle, self.state.main_held, if self.state.waiter { ";waiter" } else { "" }, self.a, self.point, self.hit, self.b)
    }
}

pub fn states() -> Vec<State> {
    vec![
        State { max: 1, idle: 0, main_held: 0, waiter: false },
        State { max: 1, idle: 1, main_held: 0, waiter: false },
        State { max: 1, idle: 0, main_held: 1, waiter: false },
        State { max: 2, idle: 1, main_held: 0, waiter: false },
        State { max: 2, idle: 1, main_held: 1, waiter: false },
        State { max: 2, idle: 2, main_held: 0, waiter: false },
        State { max: 2, idle: 0, main_held: 2, waiter: false },
        State { max: 3, idle: 1, main_held: 1, waiter: false },
        State { max: 1, idle: 0, main_held: 1, waiter: true },
        State { max: 2, idle: 0, main_held: 2, waiter: true },
        // (for operations of A that need an object of their own: A holds the last slot, C waits for it)
        State { max: 1, idle: 0, main_held: 0, waiter: true },
        State { max: 2, idle: 0, main_held: 1, waiter: true },
    ]
}

pub fn a_ops(s: &State) -> Vec<AOp> {
    let mut v = vec![
        AOp::Get { recycle_fail: false, create_fail: false },
        AOp::Get { recycle_fail: true, create_fail: false },
        AOp::Get { recycle_fail: false, create_fail: true },
        AOp::Get { recycle_fail: true, create_fail: true },
        AOp::GetNb,
        AOp::Resize(0),
        AOp::Resize(s.max + 1),
        AOp::Close,
        AOp::RetainFalse,
    ];
    if s.idle > 0 {
        v.push(AOp::RetainGate { keep: true });
        v.push(AOp::RetainGate { keep: false });
    }
    if s.max > 1 {
        v.push(AOp::Resize(s.max - 1));
    }
    // A needs an object of its own for these: only when there is room for it
    if s.idle + s.main_held < s.max || s.idle > 0 {
        v.push(AOp::Return);
        v.push(AOp::ReturnPanicking);
        v.push(AOp::Take);
    }
    v
}

pub fn b_ops(s: &State) -> Vec<BOp> {
    let mut v = vec![
        BOp::GetNbHold,
        BOp::GetNbReturn,
        BOp::RetainFalse,
        BOp::RetainTrue,
        BOp::Resize(0),
        BOp::Resize(s.max + 1),
        BOp::Close,
        BOp::Status,
        BOp::WaitThenCancel,
        BOp::CloneDrop,
    ];
    if s.max > 1 {
        v.push(BOp::Resize(s.max - 1));
    }
    if s.main_held > 0 {
        v.push(BOp::ReturnMain);
        v.push(BOp::TakeMain);
    }
    v
}

pub struct SweepOut {
    pub violations: Vec<Violation>,
    pub foreign: usize,
    pub reached: bool,
    pub trace_hash: u64,
    pub points: usize,
    pub inconclusive: Option<String>,
    pub desc: Json,
    pub events: u64,
    pub end_state: u64,
}

enum ARes {
    Nothing,
    Obj(TObject),
    Err(String),
    Cancelled,
    Panicked(String),
    Taken(TObj),
    Removed(Vec<TObj>),
}

fn retain(pool: &TPool, sh: &Arc<Sh>, keep: bool) -> Vec<TObj> {
    let sh2 = sh.clone();
    let asked = std::sync::Arc::new(AtomicUsize::new(0));
    let asked2 = asked.clone();
    let _in_retain = InRetain::enter();
    let r = pool.retain(move |o, _| {
        let _ = asked2.fetch_add(1, Ordering::SeqCst);
        if sh2.chaos.load(Ordering::Relaxed) {
            chaos_delay();
        }
        if !keep {
            sh2.externalise(o.id);
        }
        keep
    });
    // the predicate's own answers are the reference: all true or all false here
    let n = asked.load(Ordering::SeqCst);
    let (want_retained, want_removed) = if keep { (n, 0) } else { (0, n) };
    if r.retained != want_retained || r.removed.len() != want_removed {
        sh.viol(&["C09"], "retain_count", format!("retain asked the predicate {} times (always {}), but reports retained={} removed={}", n, keep, r.retained, r.removed.len()));
    }
    r.removed
}

/// Records the schedule points operation A passes when it runs alone.
pub fn discover(prop: &'static str, state: State, a: AOp) -> Vec<(&'static str, usize)> {
    let sc = Scenario { state, a, point: "", hit: 0, b: BOp::Status };
    let ctl = Ctl::new(CtlMode::Record, "", 0);
    let _ = run_sweep_inner(prop, &sc, &ctl, true);
    let mut counts: BTreeMap<&'static str, usize> = BTreeMap::new();
    let mut out = Vec::new();
    for (role, name) in ctl.trace.lock().unwrap().iter() {
        if *role == ROLE_A {
            let c = counts.entry(name).or_insert(0);
            out.push((*name, *c));
            *c += 1;
        }
    }
    out
}

pub fn run_sweep(prop: &'static str, sc: &Scenario) -> SweepOut {
    let ctl = Ctl::new(CtlMode::Sweep, sc.point, sc.hit);
    run_sweep_inner(prop, sc, &ctl, false)
}

fn run_sweep_inner(prop: &'static str, sc: &Scenario, ctl: &Arc<Ctl>, record_only: bool) -> SweepOut {
    let st = sc.state;
    let touches_limit = matches!(sc.a, AOp::Resize(_) | AOp::Close) || matches!(sc.b, BOp::Resize(_) | BOp::Close);
    let sh = Sh::new(prop, if touches_limit { isize::MAX } else { st.max as isize }, false, 0);
    // the queue mode alternates with the scenario (derived from its signature, so that replays agree)
    let lifo = vh_common::fnv1a(sc.sig().as_bytes()) % 2 == 1;
    let pool = build_mode(&sh, st.max, lifo);
    let mut log: Vec<String> = vec![format!("scenario {} queue_mode={}", sc.sig(), if lifo { "Lifo" } else { "Fifo" })];
    // ---- set-up, single threaded, no schedule control
    let mut main_held: Vec<TObject> = Vec::new();
    let mut a_obj: Option<TObject> = None;
    {
        let mut tmp = Vec::new();
        let need_a = matches!(sc.a, AOp::Return | AOp::ReturnPanicking | AOp::Take);
        let total = (st.idle + st.main_held + if need_a && st.idle + st.main_held < st.max { 1 } else { 0 }).min(st.max);
        for _ in 0..total {
            tmp.push(get_nb(&pool).expect("setup get"));
        }
        for _ in 0..st.main_held.min(tmp.len()) {
            main_held.push(tmp.pop().unwrap());
        }
        if need_a {
            a_obj = tmp.pop();
        }
        drop(tmp); // the rest becomes idle
    }
    if let AOp::Get { recycle_fail, create_fail } = sc.a {
        sh.recycle_fail.store(if recycle_fail { 1 } else { 0 }, Ordering::SeqCst);
        sh.create_fail.store(if create_fail { 1 } else { 0 }, Ordering::SeqCst);
    }
    // ---- optional third thread C: blocked in get() from the start (all capacity is held by the controller)
    let c_cancel = Arc::new(AtomicBool::new(false));
    let c_done = Arc::new(AtomicBool::new(false));
    let c_pending = Arc::new(AtomicBool::new(false));
    let c_handle = if st.waiter {
        let (pool2, ctl2, c_cancel2, c_done2, c_pending2) = (pool.clone(), ctl.clone(), c_cancel.clone(), c_done.clone(), c_pending.clone());
        let h = std::thread::spawn(move || {
            enter(&ctl2, 2);
            let prog = AtomicUsize::new(0);
            // the object is given back at once: C only stands for "somebody is waiting"
            let r = catch_unwind(AssertUnwindSafe(|| get_blocking(&pool2, &c_cancel2, &prog, &c_pending2).map(|r| r.map(|o| o.id))));
            leave();
            c_done2.store(true, Ordering::SeqCst);
            r
        });
        let t0 = std::time::Instant::now();
        while !c_pending.load(Ordering::SeqCst) && !c_done.load(Ordering::SeqCst) && t0.elapsed() < Duration::from_secs(2) {
            std::thread::yield_now();
        }
        Some(h)
    } else {
        None
    };
    let cancel = Arc::new(AtomicBool::new(false));
    let progress = Arc::new(AtomicUsize::new(0));
    let done = Arc::new(AtomicBool::new(false));
    let pending = Arc::new(AtomicBool::new(false));
    // ---- thread A
    let a_handle = {
        let (pool, sh, ctl, cancel, progress, done, pending) = (pool.clone(), sh.clone(), ctl.clone(), cancel.clone(), progress.clone(), done.clone(), pending.clone());
        let a = sc.a;
        std::thread::spawn(move || {
            enter(&ctl, ROLE_A);
            let r = catch_unwind(AssertUnwindSafe(|| match a {
                AOp::Get { .. } => match get_blocking(&pool, &cancel, &progress, &pending) {
                    None => ARes::Cancelled,
                    Some(Ok(o)) => {
                        let h = sh.holders.fetch_add(1, Ordering::SeqCst) + 1;
                        let lim = sh.limit.load(Ordering::SeqCst);
                        if h > lim {
                            sh.viol(&["C01"], "holders_over_limit", format!("{} callers hold an object at the same time (max_size {})", h, lim));
                        }
                        ARes::Obj(o)
                    }
                    Some(Err(e)) => ARes::Err(format!("{:?}", e)),
                },
                AOp::GetNb => match get_nb(&pool) {
                    Ok(o) => {
                        let _ = sh.holders.fetch_add(1, Ordering::SeqCst);
                        ARes::Obj(o)
                    }
                    Err(e) => ARes::Err(format!("{:?}", e)),
                },
                AOp::Return => {
                    let _ = sh.holders.fetch_sub(1, Ordering::SeqCst);
                    drop(a_obj);
                    ARes::Nothing
                }
                AOp::ReturnPanicking => {
                    let _ = sh.holders.fetch_sub(1, Ordering::SeqCst);
                    let r = catch_unwind(AssertUnwindSafe(move || {
                        let _o = a_obj;
                        std::panic::panic_any(vh_common::InjectedPanic(1));
                    }));
                    let _ = r;
                    ARes::Nothing
                }
                AOp::Take => match a_obj {
                    Some(o) => {
                        let _ = sh.holders.fetch_sub(1, Ordering::SeqCst);
                        sh.externalise(o.id);
                        ARes::Taken(Object::take(o))
                    }
                    None => ARes::Nothing,
                },
                AOp::Resize(n) => {
                    pool.resize(n);
                    ARes::Nothing
                }
                AOp::Close => {
                    pool.close();
                    ARes::Nothing
                }
                AOp::RetainFalse => ARes::Removed(retain(&pool, &sh, false)),
                AOp::RetainGate { keep } => {
                    let sh2 = sh.clone();
                    let mut first = true;
                    let _in_retain = InRetain::enter();
                    let r = pool.retain(move |o, _| {
                        if first {
                            first = false;
                            pseudo_point("pred:first");
                        }
                        if !keep {
                            sh2.externalise(o.id);
                        }
                        keep
                    });
                    ARes::Removed(r.removed)
                }
            }));
            leave();
            done.store(true, Ordering::SeqCst);
            match r {
                Ok(v) => v,
                Err(p) => ARes::Panicked(panic_message(&*p)),
            }
        })
    };
    let _ = sh.holders.fetch_add(main_held.len() as isize + if matches!(sc.a, AOp::Return | AOp::ReturnPanicking | AOp::Take) { 1 } else { 0 }, Ordering::SeqCst);
    // ---- wait until A is parked at the point (or finished / blocked elsewhere)
    let mut reached = false;
    if !record_only {
        let t0 = std::time::Instant::now();
        loop {
            if ctl.latch.has_arrived() {
                reached = true;
                break;
            }
            if done.load(Ordering::SeqCst) || pending.load(Ordering::SeqCst) {
                break;
            }
            if t0.elapsed() > Duration::from_millis(1500) {
                break; // A is blocked somewhere before the point (e.g. waiting for a slot)
            }
            std::thread::yield_now();
        }
    }
    // ---- A sits in Manager::detach of its take(): the pool has let the object go and, without its lock,
    // runs user code of unknown duration. The slot is free already (status() says so), so a caller that
    // has been waiting must be served now, not when detach() comes back.
    if reached && sc.point == "cb:detach" && matches!(sc.a, AOp::Take) && c_handle.is_some() && c_pending.load(Ordering::SeqCst) && !pool.is_closed() {
        let st_now = pool.status();
        if st_now.size < st_now.max_size {
            let t0 = std::time::Instant::now();
            while !c_done.load(Ordering::SeqCst) && t0.elapsed() < Duration::from_millis(1500) {
                std::thread::sleep(Duration::from_micros(200));
            }
            if !c_done.load(Ordering::SeqCst) {
                sh.viol(
                    &["C02", "C09"],
                    "stranded_waiter",
                    format!("take() has freed a slot (status {:?}) and is inside Manager::detach, but the caller blocked in get() has not been served after 1.5 s", st_now),
                );
            }
        }
    }
    // ---- operation B on the controller thread
    enter(ctl, ROLE_CTRL);
    let mut b_held: Vec<TObject> = Vec::new();
    let mut externals: Vec<TObj> = Vec::new();
    let mut b_res = String::new();
    if !record_only {
        let in_pred = reached && sc.point.starts_with("pred:");
        let mut run_b = || catch_unwind(AssertUnwindSafe(|| match sc.b {
            BOp::GetNbHold | BOp::GetNbReturn => match get_nb(&pool) {
                Ok(o) => {
                    let h = sh.holders.fetch_add(1, Ordering::SeqCst) + 1;
                    let lim = sh.limit.load(Ordering::SeqCst);
                    if h > lim {
                        sh.viol(&["C01"], "holders_over_limit", format!("{} callers hold an object at the same time (max_size {})", h, lim));
                    }
                    if sc.b == BOp::GetNbReturn {
                        let _ = sh.holders.fetch_sub(1, Ordering::SeqCst);
                        drop(o);
                    } else {
                        b_held.push(o);
                    }
                    "ok".to_string()
                }
                Err(e) => format!("{:?}", e),
            },
            BOp::ReturnMain => {
                let _ = sh.holders.fetch_sub(1, Ordering::SeqCst);
                drop(main_held.pop());
                "returned".into()
            }
            BOp::TakeMain => {
                if let Some(o) = main_held.pop() {
                    let _ = sh.holders.fetch_sub(1, Ordering::SeqCst);
                    sh.externalise(o.id);
                    externals.push(Object::take(o));
                }
                "taken".into()
            }
            BOp::RetainFalse => {
                externals.extend(retain(&pool, &sh, false));
                "retained".into()
            }
            BOp::RetainTrue => {
                externals.extend(retain(&pool, &sh, true));
                "retained".into()
            }
            BOp::Resize(n) => {
                pool.resize(n);
                "resized".into()
            }
            BOp::Close => {
                pool.close();
                // once close() has returned the pool keeps no idle objects, whatever else is in flight
                let s = pool.status();
                if s.available != 0 || s.max_size != 0 || !pool.is_closed() {
                    sh.viol(&["C06"], "close_returned_early", format!("close() returned but the pool still reports {:?} (is_closed={})", s, pool.is_closed()));
                }
                "closed".into()
            }
            BOp::Status => format!("{:?}", pool.status()),
            BOp::WaitThenCancel => {
                // poll a blocking get once and drop it: cancellation while (possibly) queued
                match poll_once(pool.get()) {
                    Some(Ok(o)) => {
                        let _ = sh.holders.fetch_add(1, Ordering::SeqCst);
                        b_held.push(o);
                        "ok".into()
                    }
                    Some(Err(e)) => format!("{:?}", e),
                    None => "cancelled".into(),
                }
            }
            BOp::CloneDrop => {
                let c = pool.clone();
                let s = c.status();
                drop(c);
                format!("{:?}", s)
            }
        }));
        let r = if in_pred {
            // A sits inside its predicate and (in correct code) holds the pool's lock: B may have to
            // wait for it. Run B on a helper thread; if it does not finish, let A go first.
            let bdone = AtomicBool::new(false);
            std::thread::scope(|s| {
                let bdone = &bdone;
                let h = s.spawn(move || {
                    enter(ctl, ROLE_CTRL);
                    let r = run_b();
                    leave();
                    bdone.store(true, Ordering::SeqCst);
                    r
                });
                let t0 = std::time::Instant::now();
                while !bdone.load(Ordering::SeqCst) && t0.elapsed() < Duration::from_millis(120) {
                    std::thread::sleep(Duration::from_micros(200));
                }
                if bdone.load(Ordering::SeqCst) {
                    sh.callbacks.fetch_add(1, Ordering::Relaxed);
                }
                ctl.latch.release();
                h.join().unwrap_or_else(|_| Ok("helper thread died".into()))
            })
        } else {
            run_b()
        };
        match r {
            Ok(s) => b_res = s,
            Err(p) => {
                b_res = format!("panic: {}", panic_message(&*p));
                sh.viol(&["C02", "C06", "*"], "operation_panicked", format!("operation {:?} panicked: {}", sc.b, panic_message(&*p)));
            }
        }
    }
    log.push(format!("B {:?} -> {}", sc.b, b_res));
    // ---- resume A, bring everything back
    ctl.latch.release();
    let closed_now = pool.is_closed();
    // give capacity back so that a blocked A can finish
    let _ = sh.holders.fetch_sub((main_held.len() + b_held.len()) as isize, Ordering::SeqCst);
    main_held.clear();
    b_held.clear();
    let mut inconclusive = None;
    if !done.load(Ordering::SeqCst) {
        // A may legitimately still be waiting (capacity 0 / closed handled by the pool itself)
        let t0 = std::time::Instant::now();
        let mut last = progress.load(Ordering::SeqCst);
        let mut stable_since = std::time::Instant::now();
        loop {
            if done.load(Ordering::SeqCst) {
                break;
            }
            let st_now = pool.status();
            let can_progress = !pool.is_closed() && st_now.max_size > 0;
            if !can_progress && !pool.is_closed() {
                // zero capacity: waiting forever is correct; cancel it
                cancel.store(true, Ordering::SeqCst);
            }
            let p = progress.load(Ordering::SeqCst);
            if p != last {
                last = p;
            }
            if t0.elapsed() > Duration::from_secs(6) {
                // stable hang: nothing else runs, capacity is free (or the pool is closed)
                let _ = stable_since;
                if matches!(sc.a, AOp::Get { .. }) && (pool.is_closed() || can_progress) {
                    sh.viol(
                        &["C02", "C06", "C07"],
                        "stranded_waiter",
                        format!("thread A is still blocked in get() 6s after everything was returned (closed={}, status={:?})", pool.is_closed(), st_now),
                    );
                } else {
                    inconclusive = Some(format!("watchdog: A did not finish ({})", sc.sig()));
                }
                cancel.store(true, Ordering::SeqCst);
                stable_since = std::time::Instant::now();
                // wait for the cancellation to take effect
                let t1 = std::time::Instant::now();
                while !done.load(Ordering::SeqCst) && t1.elapsed() < Duration::from_secs(10) {
                    std::thread::sleep(Duration::from_millis(1));
                }
                break;
            }
            std::thread::sleep(Duration::from_micros(200));
        }
    }
    let _ = closed_now;
    let a_res = match a_handle.join() {
        Ok(r) => r,
        Err(_) => ARes::Panicked("thread A died".into()),
    };
    // ---- the blocked third thread must have been served (or told Closed) by now
    // (A's own result is still alive in `a_res`: an object in it goes back first)
    let a_res = match a_res {
        ARes::Obj(o) => {
            log.push(format!("A -> Ok(obj{})", o.id));
            let _ = sh.holders.fetch_sub(1, Ordering::SeqCst);
            drop(o);
            ARes::Nothing
        }
        other => other,
    };
    if let Some(h) = c_handle {
        let t0 = std::time::Instant::now();
        loop {
            if c_done.load(Ordering::SeqCst) {
                break;
            }
            // A may still hold the only slot: take its result into account below, here only wait
            let st_now = pool.status();
            let can_progress = pool.is_closed() || (st_now.max_size > 0 && st_now.size.saturating_sub(st_now.available) < st_now.max_size);
            if !can_progress {
                c_cancel.store(true, Ordering::SeqCst);
            }
            if t0.elapsed() > Duration::from_secs(6) {
                if can_progress {
                    sh.viol(
                        &["C02", "C06", "C07"],
                        "stranded_waiter",
                        format!("the third thread is still blocked in get() 6s after A and B finished (closed={}, status={:?})", pool.is_closed(), st_now),
                    );
                } else {
                    inconclusive = Some(format!("watchdog: C did not finish ({})", sc.sig()));
                }
                c_cancel.store(true, Ordering::SeqCst);
                let t1 = std::time::Instant::now();
                while !c_done.load(Ordering::SeqCst) && t1.elapsed() < Duration::from_secs(10) {
                    std::thread::sleep(Duration::from_millis(1));
                }
                break;
            }
            std::thread::sleep(Duration::from_micros(200));
        }
        match h.join() {
            Ok(Ok(Some(Ok(id)))) => log.push(format!("C -> Ok(obj{}), returned at once", id)),
            Ok(Ok(Some(Err(e)))) => {
                let e = format!("{:?}", e);
                log.push(format!("C -> Err({})", e));
                if e != "Closed" && e != "Backend(TErr)" {
                    sh.viol(&["C04", "C02"], "unexpected_error", format!("the blocked get() of the third thread failed with {}", e));
                }
            }
            Ok(Ok(None)) => log.push("C -> cancelled".into()),
            Ok(Err(p)) => sh.viol(&["C02", "C06", "*"], "operation_panicked", format!("the blocked get() of the third thread panicked: {}", panic_message(&*p))),
            Err(_) => sh.viol(&["*"], "thread_died", "thread C died".into()),
        }
    }
    leave();
    if ctl.watchdog_fired.load(Ordering::SeqCst) > 0 {
        inconclusive = Some(format!("latch watchdog fired ({})", sc.sig()));
    }
    match a_res {
        ARes::Nothing | ARes::Cancelled => log.push("A -> done".into()),
        ARes::Obj(o) => {
            log.push(format!("A -> Ok(obj{})", o.id));
            let _ = sh.holders.fetch_sub(1, Ordering::SeqCst);
            drop(o);
        }
        ARes::Err(e) => {
            log.push(format!("A -> Err({})", e));
            let ok = match sc.a {
                AOp::Get { create_fail, .. } => e == "Closed" || (create_fail && e == "Backend(TErr)"),
                AOp::GetNb => e == "Closed" || e == "Timeout(Wait)",
                _ => false,
            };
            if !ok {
                sh.viol(&["C04", "C02"], "unexpected_error", format!("A {:?} failed with {}", sc.a, e));
            }
            // a non-waiting get against close(): a slot was free when the call began and nobody but close() ran
            // meanwhile, so the call either got its object (it came first) or was told Closed (close came first).
            // "no slot free" fits neither order.
            let slot_was_free = st.max > st.main_held && !st.waiter;
            if matches!(sc.a, AOp::GetNb) && sc.b == BOp::Close && slot_was_free && e == "Timeout(Wait)" {
                sh.viol(&["C06", "C10", "C02"], "timeout_instead_of_closed", format!("non-waiting get() with a free slot ({} of {} out), overlapped by close() only, failed with Timeout(Wait)", st.main_held, st.max));
            }
        }
        ARes::Panicked(m) => {
            log.push(format!("A -> PANIC {}", m));
            sh.viol(&["C02", "C06", "*"], "operation_panicked", format!("operation {:?} panicked: {}", sc.a, m));
        }
        ARes::Taken(o) => externals.push(o),
        ARes::Removed(v) => externals.extend(v),
    }
    // ---- nothing shrinks, closes or fails in this scenario: then the pool has no reason to destroy an object
    // (objects removed by retain() or taken are owned by the harness and counted as external)
    let discards_expected = matches!(sc.a, AOp::Resize(_) | AOp::Close | AOp::Get { recycle_fail: true, .. }) || matches!(sc.b, BOp::Resize(_) | BOp::Close);
    if !discards_expected {
        let o = sh.objs.lock().unwrap();
        let lost: Vec<usize> = o.iter().enumerate().filter(|(_, i)| i.destructed && !i.external).map(|(k, _)| k).collect();
        if !lost.is_empty() {
            sh.viol(&["C09", "C02", "C01"], "healthy_object_discarded", format!("objects {:?} were destroyed by the pool although nothing failed and the pool was neither shrunk nor closed", lost));
        }
    }
    // ---- end-state oracles, at rest
    let end_state = match catch_unwind(AssertUnwindSafe(|| end_state_checks(&sh, &pool, &mut log, &[sc.a_max(), sc.b_max(), Some(st.max)]))) {
        Ok(h) => h,
        Err(p) => {
            sh.viol(&["C02", "C06", "*"], "later_call_panicked", format!("a pool call at rest panicked (poisoned by an earlier panic?): {}", panic_message(&*p)));
            0
        }
    };
    drop(externals);
    drop(pool);
    let constructed = sh.constructed.load(Ordering::SeqCst);
    let destructed = sh.destructed.load(Ordering::SeqCst);
    if constructed != destructed {
        sh.viol(&["C06", "C02"], "objects_leaked", format!("{} objects constructed, {} destructed after everything was dropped", constructed, destructed));
    }
    let violations = std::mem::take(&mut *sh.violations.lock().unwrap());
    let points = ctl.points_hit.load(Ordering::SeqCst);
    SweepOut {
        foreign: sh.foreign.load(Ordering::SeqCst),
        reached,
        trace_hash: ctl.trace_hash(),
        points,
        inconclusive,
        desc: Json::obj()
            .with("engine", "th_sweep")
            .with("profile_prop", prop)
            .with("scenario", sc.sig())
            .with("log", log.iter().map(|s| Json::from(s.as_str())).collect::<Vec<_>>())
            .with("trace", ctl.trace.lock().unwrap().iter().map(|(r, n)| Json::from(format!("{}:{}", if *r == ROLE_A { "A" } else { "B" }, n))).collect::<Vec<_>>()),
        events: points as u64 + sh.callbacks.load(Ordering::SeqCst) as u64 + 2,
        end_state,
        violations,
    }
}

impl Scenario {
    fn a_max(&self) -> Option<usize> {
        match self.a {
            AOp::Resize(n) => Some(n),
            _ => None,
        }
    }
    fn b_max(&self) -> Option<usize> {
        match self.b {
            BOp::Resize(n) => Some(n),
            _ => None,
        }
    }
}

/// Oracles evaluated when all threads are joined and every object is back.
/// `candidates`: the values max_size may legitimately have now.
pub fn end_state_checks(sh: &Arc<Sh>, pool: &TPool, log: &mut Vec<String>, candidates: &[Option<usize>]) -> u64 {
    sh.chaos.store(false, Ordering::SeqCst);
    sh.recycle_fail.store(0, Ordering::SeqCst);
    sh.create_fail.store(0, Ordering::SeqCst);
    let st = pool.status();
    let closed = pool.is_closed();
    log.push(format!("at rest: {:?} closed={}", st, closed));
    let (live, external_alive) = {
        let o = sh.objs.lock().unwrap();
        (o.iter().filter(|i| !i.destructed && !i.external).count(), o.iter().filter(|i| !i.destructed && i.external).count())
    };
    let _ = external_alive;
    let big = 1usize << 32;
    if st.size >= big || st.available >= big || st.waiting >= big {
        sh.viol(&["C11", "C02"], "status_wrapped", format!("status() wrapped: {:?}", st));
        return 0;
    }
    if closed {
        if st.max_size != 0 {
            sh.viol(&["C06", "C11"], "closed_max_size", format!("closed pool reports max_size {}", st.max_size));
        }
        if live != 0 || st.size != 0 {
            sh.viol(&["C06", "C11"], "closed_pool_keeps_objects", format!("closed pool at rest: {} objects still alive inside, status {:?}", live, st));
        }
    } else {
        if !candidates.iter().flatten().any(|c| *c == st.max_size) {
            sh.viol(&["C07"], "max_size_unexpected", format!("max_size is {} but only {:?} were ever requested", st.max_size, candidates));
        }
        if st.size != live || st.available != live || st.waiting != 0 {
            sh.viol(&["C11", "C02", "C07"], "status_at_rest", format!("at rest {:?} but {} objects are alive in the pool and nobody waits", st, live));
        }
        if live > st.max_size {
            sh.viol(&["C07"], "surplus_at_rest", format!("{} idle objects at rest but max_size is {}", live, st.max_size));
        }
    }
    // capacity probe through the public API
    let mut got = Vec::new();
    let mut probe = String::new();
    for i in 0..=st.max_size {
        match get_nb(pool) {
            Ok(o) => {
                if i == st.max_size {
                    sh.viol(&["C07", "C01", "C02"], "capacity_probe_extra", format!("get number max_size+1={} succeeded", i + 1));
                }
                got.push(o);
                probe.push('o');
            }
            Err(PoolError::Timeout(TimeoutType::Wait)) if !closed => {
                if i < st.max_size {
                    sh.viol(&["C02", "C07", "C06"], "capacity_probe", format!("at rest only {} of max_size {} objects could be taken", i, st.max_size));
                }
                probe.push('t');
                break;
            }
            Err(PoolError::Closed) if closed => {
                probe.push('c');
                break;
            }
            Err(e) => {
                sh.viol(&["C02", "C06"], "capacity_probe_error", format!("probe get failed with {:?} (closed={})", e, closed));
                break;
            }
        }
    }
    log.push(format!("probe {}", probe));
    drop(got);
    // detach ledger (before the pool itself goes away)
    {
        let o = sh.objs.lock().unwrap();
        for (id, i) in o.iter().enumerate() {
            let gone = i.destructed || i.external;
            if gone && i.detach != 1 {
                sh.viol(if closed { &["C09", "C06"] } else { &["C09"] }, "detach_count", format!("obj{} left the pool but detach was called {} times", id, i.detach));
            }
            if !gone && i.detach != 0 {
                sh.viol(&["C09"], "detach_of_kept_object", format!("obj{} is still in the pool but was detached {} times", id, i.detach));
            }
        }
    }
    let mut h = vh_common::Hasher::default();
    for x in [st.max_size, st.size, st.available, closed as usize, live] {
        h.u64(x as u64);
    }
    h.0
}

// ------------------------------------------------------------------ chaos

pub struct ChaosOut {
    pub violations: Vec<Violation>,
    pub foreign: usize,
    pub trace_hash: u64,
    pub points: usize,
    pub desc: Json,
    pub events: u64,
    pub end_state: u64,
    pub nontrivial: bool,
}

#[derive(Clone, Copy, Debug)]
pub struct ChaosCfg {
    pub threads: usize,
    pub ops: usize,
    pub max_size: usize,
    pub resize: bool,
    pub close: bool,
    pub retain_take: bool,
    pub p_fail: u32,
    /// full speed instead of injected delays
    pub hammer: bool,
}

pub fn run_chaos(prop: &'static str, cfg: ChaosCfg, seed: u64) -> ChaosOut {
    let limit = if cfg.resize || cfg.close { isize::MAX } else { cfg.max_size as isize };
    let sh = Sh::new(prop, limit, true, cfg.p_fail);
    let pool = build_mode(&sh, cfg.max_size, seed % 2 == 1);
    let ctl = Ctl::new(if cfg.hammer { CtlMode::Hammer } else { CtlMode::Chaos }, "", 0);
    let resizes: Arc<Mutex<Vec<usize>>> = Arc::new(Mutex::new(vec![cfg.max_size]));
    let waited = Arc::new(AtomicUsize::new(0));
    let mut handles = Vec::new();
    for t in 0..cfg.threads {
        let (pool, sh, ctl, resizes, waited) = (pool.clone(), sh.clone(), ctl.clone(), resizes.clone(), waited.clone());
        handles.push(std::thread::spawn(move || {
            enter(&ctl, 10 + t as u8);
            thread_rng_seed(seed.wrapping_mul(1000).wrapping_add(t as u64));
            let mut held: Vec<TObject> = Vec::new();
            let mut ext: Vec<TObj> = Vec::new();
            let mut log: Vec<String> = Vec::new();
            let r = catch_unwind(AssertUnwindSafe(|| {
                for _ in 0..cfg.ops {
                    let x = thread_rng(|r| r.below(100));
                    match x {
                        0..=34 => {
                            // blocking get, cancelled after a bounded number of parks
                            let fut = pool.get();
                            let parks = if cfg!(miri) || cfg.hammer { 3 } else { 30 };
                            match block_on_cancel(fut, parks, Duration::from_micros(if cfg!(miri) || cfg.hammer { 0 } else { 300 })) {
                                Some(Ok(o)) => {
                                    let h = sh.holders.fetch_add(1, Ordering::SeqCst) + 1;
                                    let lim = sh.limit.load(Ordering::SeqCst);
                                    if h > lim {
                                        sh.viol(&["C01"], "holders_over_limit", format!("{} callers hold an object at the same time (max_size {})", h, lim));
                                    }
                                    log.push(format!("get ok obj{}", o.id));
                                    held.push(o);
                                }
                                Some(Err(e)) => log.push(format!("get err {:?}", e)),
                                None => {
                                    let _ = waited.fetch_add(1, Ordering::SeqCst);
                                    log.push("get cancelled".into());
                                }
                            }
                        }
                        35..=49 => match get_nb(&pool) {
                            Ok(o) => {
                                let h = sh.holders.fetch_add(1, Ordering::SeqCst) + 1;
                                let lim = sh.limit.load(Ordering::SeqCst);
                                if h > lim {
                                    sh.viol(&["C01"], "holders_over_limit", format!("{} callers hold an object at the same time (max_size {})", h, lim));
                                }
                                held.push(o);
                            }
                            Err(_) => {}
                        },
                        50..=79 => {
                            if let Some(o) = held.pop() {
                                let _ = sh.holders.fetch_sub(1, Ordering::SeqCst);
                                drop(o);
                            }
                        }
                        80..=84 => {
                            if cfg.retain_take {
                                if let Some(o) = held.pop() {
                                    let _ = sh.holders.fetch_sub(1, Ordering::SeqCst);
                                    sh.externalise(o.id);
                                    ext.push(Object::take(o));
                                }
                            }
                        }
                        85..=88 => {
                            if cfg.retain_take {
                                let keep = thread_rng(|r| r.chance(1, 2));
                                ext.extend(retain(&pool, &sh, keep));
                            }
                        }
                        89..=93 => {
                            if cfg.resize {
                                let n = thread_rng(|r| r.usize_below(cfg.max_size + 2));
                                resizes.lock().unwrap().push(n);
                                pool.resize(n);
                                log.push(format!("resize {}", n));
                            }
                        }
                        94 => {
                            if cfg.close && thread_rng(|r| r.chance(1, 3)) {
                                pool.close();
                                log.push("close".into());
                            }
                        }
                        _ => {
                            let s = pool.status();
                            let big = 1usize << 32;
                            if s.size >= big || s.available >= big || s.waiting >= big || s.available > s.size {
                                sh.viol(&["C11"], "status_implausible", format!("{:?}", s));
                            }
                        }
                    }
                    ext.clear();
                }
            }));
            if let Err(p) = r {
                sh.viol(&["C02", "C06", "*"], "operation_panicked", format!("a pool call panicked: {}", panic_message(&*p)));
            }
            let _ = sh.holders.fetch_sub(held.len() as isize, Ordering::SeqCst);
            let dr = catch_unwind(AssertUnwindSafe(move || drop(held)));
            if dr.is_err() {
                sh.viol(&["C02", "C06", "*"], "operation_panicked", "returning objects panicked".into());
            }
            leave();
            log
        }));
    }
    let mut logs = Vec::new();
    for (t, h) in handles.into_iter().enumerate() {
        match h.join() {
            Ok(l) => logs.push(Json::from(format!("thread {}: {}", t, l.join("; ")))),
            Err(_) => sh.viol(&["*"], "thread_died", format!("chaos thread {} died", t)),
        }
    }
    let mut log = Vec::new();
    let cands: Vec<Option<usize>> = resizes.lock().unwrap().iter().map(|x| Some(*x)).collect();
    let end_state = match catch_unwind(AssertUnwindSafe(|| end_state_checks(&sh, &pool, &mut log, &cands))) {
        Ok(h) => h,
        Err(p) => {
            sh.viol(&["C02", "C06", "*"], "later_call_panicked", format!("a pool call at rest panicked (poisoned by an earlier panic?): {}", panic_message(&*p)));
            0
        }
    };
    drop(pool);
    let constructed = sh.constructed.load(Ordering::SeqCst);
    let destructed = sh.destructed.load(Ordering::SeqCst);
    if constructed != destructed {
        sh.viol(&["C06", "C02"], "objects_leaked", format!("{} objects constructed, {} destructed after everything was dropped", constructed, destructed));
    }
    let points = ctl.points_hit.load(Ordering::SeqCst);
    let violations = std::mem::take(&mut *sh.violations.lock().unwrap());
    ChaosOut {
        foreign: sh.foreign.load(Ordering::SeqCst),
        trace_hash: ctl.trace_hash(),
        points,
        desc: Json::obj()
            .with("engine", "th_chaos")
            .with("profile_prop", prop)
            .with("seed", seed)
            .with("config", format!("{:?}", cfg))
            .with("threads", Json::Arr(logs))
            .with("end", log.iter().map(|s| Json::from(s.as_str())).collect::<Vec<_>>()),
        events: points as u64 + sh.callbacks.load(Ordering::SeqCst) as u64,
        end_state,
        nontrivial: waited.load(Ordering::SeqCst) > 0 || constructed >= cfg.max_size,
        violations,
    }
}

/// Objects that outlive every pool handle: use them, take one, drop the other.
pub fn outlive_scenario() -> (bool, String) {
    let sh = Sh::new("C06", isize::MAX, false, 0);
    let pool = build(&sh, 2);
    let a = match get_nb(&pool) {
        Ok(o) => o,
        Err(e) => return (false, format!("get failed: {:?}", e)),
    };
    let b = match get_nb(&pool) {
        Ok(o) => o,
        Err(e) => return (false, format!("get failed: {:?}", e)),
    };
    drop(pool);
    let ida = a.id;
    let r = catch_unwind(AssertUnwindSafe(move || {
        let inner = Object::take(a);
        let same = inner.id == ida;
        drop(inner);
        drop(b);
        same
    }));
    match r {
        Ok(true) => {
            let c = sh.constructed.load(Ordering::SeqCst);
            let d = sh.destructed.load(Ordering::SeqCst);
            (c == d, format!("constructed {} destructed {}", c, d))
        }
        Ok(false) => (false, "take returned another value".into()),
        Err(p) => (false, format!("using objects after the pool was dropped panicked: {}", panic_message(&*p))),
    }
}

#[allow(dead_code)]
pub fn unused(_: Rng) {}
