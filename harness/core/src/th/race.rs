//! Lean full-speed race engines: many threads hammer the real pool with
//! almost no harness bookkeeping in between (plain atomic counters only, no
//! harness locks that would serialise the threads), one thread closes or
//! resizes the pool in the middle, and conservation / capacity oracles run
//! when all threads are joined. These reach check-then-act windows of a few
//! instructions that have no schedule point.

use std::future::Future;
use std::sync::atomic::{AtomicBool, AtomicUsize, Ordering};
use std::sync::Arc;
use std::time::Duration;

use deadpool::managed::{self, Metrics, Pool, PoolError, RecycleResult, TimeoutType, Timeouts};
use vh_common::{Json, Rng, Violation};

use super::poll_once;

#[derive(Default)]
pub struct Cnt {
    pub created: AtomicUsize,
    pub dropped: AtomicUsize,
    pub detached: AtomicUsize,
    pub peak: AtomicUsize,
    /// get() calls entered / left (monotone), for the race-proof bound on status().waiting
    pub entered: AtomicUsize,
    pub left: AtomicUsize,
}

pub struct LObj(Arc<Cnt>);
impl Drop for LObj {
    fn drop(&mut self) {
        let _ = self.0.dropped.fetch_add(1, Ordering::SeqCst);
    }
}

pub struct LMgr(pub Arc<Cnt>);
impl managed::Manager for LMgr {
    type Type = LObj;
    type Error = ();
    fn create(&self) -> impl Future<Output = Result<LObj, ()>> + Send {
        let c = self.0.clone();
        async move {
            let n = c.created.fetch_add(1, Ordering::SeqCst) + 1;
            let live = n - c.dropped.load(Ordering::SeqCst).min(n);
            let _ = c.peak.fetch_max(live, Ordering::SeqCst);
            Ok(LObj(c))
        }
    }
    fn recycle(&self, _: &mut LObj, _: &Metrics) -> impl Future<Output = RecycleResult<()>> + Send {
        async { Ok(()) }
    }
    fn detach(&self, _: &mut LObj) {
        let _ = self.0.detached.fetch_add(1, Ordering::SeqCst);
    }
}

const NB: Timeouts = Timeouts { wait: Some(Duration::ZERO), create: None, recycle: None };

pub struct RaceOut {
    pub violations: Vec<Violation>,
    pub desc: Json,
    pub events: u64,
    pub hash: u64,
}

fn spin(n: u64) {
    for _ in 0..n {
        std::hint::spin_loop();
    }
}

/// Managed pool: getters at full speed while one thread resizes (C07) or closes (C06).
pub fn managed_race(prop: &'static str, seed: u64, close: bool) -> RaceOut {
    let mut rng = Rng::derive(seed, 0x7ace, close as u64);
    let small = cfg!(miri) || std::env::var_os("VERIF_RACE_SMALL").is_some();
    if !close && !small && prop != "C11" && seed % 5 == 2 {
        return managed_steady_race(prop, seed);
    }
    if close && !small && seed % 10 == 3 {
        return handle_drop_race(prop, seed);
    }
    let dense = rng.chance(1, 2);
    // for the status sampler (C11) half of the rounds run with one or two workers only: the race-proof
    // bound "waiting <= callers inside get()" is then tight enough to see an off-by-one
    let few = prop == "C11" && rng.chance(1, 2);
    let dense = dense && !few;
    // "storm": few getters, free permits most of the time, and hundreds of back-to-back resizes - the regime
    // in which a shrink that reads the free permits and retires them in two steps can be overtaken
    let storm = !close && !few && !small && rng.chance(1, 3);
    let dense = dense && !storm;
    // "contention": max_size never changes; besides the getters one or two threads do nothing but take
    // the pool's lock (retain that keeps everything, status). Objects only leave through failed... nothing:
    // so the number of live objects may never exceed max_size, whatever the interleaving.
    let contention = !close && !few && !small && !storm && rng.chance(1, 4);
    let dense = dense && !contention;
    let threads = if small { 3 } else if few { rng.range(1, 2) as usize } else if contention { rng.range(2, 6) as usize } else if storm { rng.range(1, 4) as usize } else if dense { rng.range(12, 40) as usize } else { rng.range(3, 12) as usize };
    let iters = if small { rng.range(3, 8) as usize } else if few { rng.range(5000, 20000) as usize } else if contention { rng.range(2000, 8000) as usize } else if storm { 1_000_000 } else { rng.range(200, 1500) as usize };
    let start_max = if storm { rng.range(3, 6) as usize } else { rng.range(1, 4) as usize };
    let resizes: Vec<usize> = if contention {
        vec![start_max]
    } else if storm {
        let n = rng.range(200, 600);
        (0..n).map(|k| if k % 2 == 0 { rng.usize_below(4) } else { rng.range(3, 6) as usize }).collect()
    } else {
        (0..rng.range(4, if cfg!(miri) { 6 } else { 40 })).map(|_| rng.usize_below(6)).collect()
    };
    let final_max = *resizes.last().unwrap();
    let delay = if small { rng.below(30) } else if storm { rng.below(300) } else { rng.below(if dense { 40_000 } else { 3000 }) };
    let cnt = Arc::new(Cnt::default());
    let lifo = rng.chance(1, 2);
    let pool: Pool<LMgr> = Pool::builder(LMgr(cnt.clone())).max_size(start_max).queue_mode(if lifo { managed::QueueMode::Lifo } else { managed::QueueMode::Fifo }).build().unwrap();
    let stop = Arc::new(AtomicBool::new(false));
    let gets = Arc::new(AtomicUsize::new(0));
    let mut hs = Vec::new();
    let mut viol: Vec<Violation> = Vec::new();
    for t in 0..threads {
        let (pool, stop, gets, cnt2) = (pool.clone(), stop.clone(), gets.clone(), cnt.clone());
        hs.push(std::thread::spawn(move || -> Result<(), String> {
            let mut held = Vec::new();
            for i in 0..iters {
                if !few && !contention && stop.load(Ordering::Relaxed) && i % 8 == 0 {
                    break;
                }
                let _ = cnt2.entered.fetch_add(1, Ordering::SeqCst);
                // every fourth call is a blocking get() that is polled once and dropped: if no slot is free
                // that is an abandonment at the waiting point
                let blocking = (i + 2 * t) % 4 == 1;
                let r = std::panic::catch_unwind(std::panic::AssertUnwindSafe(|| if blocking { poll_once(pool.get()) } else { poll_once(pool.timeout_get(&NB)) }));
                let _ = cnt2.left.fetch_add(1, Ordering::SeqCst);
                match r {
                    Ok(Some(Ok(o))) => {
                        let _ = gets.fetch_add(1, Ordering::Relaxed);
                        if !dense && !contention && !few && (i + 3 * t) % 11 == 0 {
                            // taken out of the pool for good (detached once, then destroyed by the caller)
                            drop(managed::Object::take(o));
                        } else if !dense && (i + t) % 5 == 0 {
                            held.push(o);
                        }
                    }
                    Ok(Some(Err(PoolError::Timeout(TimeoutType::Wait)))) | Ok(Some(Err(PoolError::Closed))) => {}
                    Ok(Some(Err(e))) => return Err(format!("get failed with {:?}", e)),
                    Ok(None) if blocking => {}
                    Ok(None) => return Err("zero-wait get suspended".into()),
                    Err(p) => return Err(format!("get panicked: {}", vh_common::panic_message(&*p))),
                }
                if held.len() > 1 || (i + t) % 3 == 0 {
                    drop(held.pop());
                }
            }
            Ok(())
        }));
    }
    // C11: a sampler thread checks the plausibility clauses with race-proof bounds: counters that can
    // only raise the bound are read after status(), counters that can only lower it before
    let sampler = {
        let (pool, stop, cnt2) = (pool.clone(), stop.clone(), cnt.clone());
        std::thread::spawn(move || -> (u64, Option<String>) {
            let mut n = 0u64;
            loop {
                let dropped_before = cnt2.dropped.load(Ordering::SeqCst);
                let left_before = cnt2.left.load(Ordering::SeqCst);
                let st = pool.status();
                let created_after = cnt2.created.load(Ordering::SeqCst);
                let entered_after = cnt2.entered.load(Ordering::SeqCst);
                n += 1;
                let big = 1usize << 32;
                if st.size >= big || st.available >= big || st.waiting >= big || st.max_size >= big {
                    return (n, Some(format!("status() reports a wrapped counter: {:?}", st)));
                }
                if st.available > st.size {
                    return (n, Some(format!("available > size: {:?}", st)));
                }
                if st.size > created_after - dropped_before.min(created_after) {
                    return (n, Some(format!("size {} but at most {} objects can exist (created {} afterwards, {} dropped before)", st.size, created_after - dropped_before, created_after, dropped_before)));
                }
                if st.waiting > entered_after - left_before.min(entered_after) {
                    return (n, Some(format!("waiting {} but at most {} callers can be inside get()", st.waiting, entered_after - left_before)));
                }
                if stop.load(Ordering::SeqCst) {
                    return (n, None);
                }
                if !few {
                    std::thread::yield_now();
                }
            }
        })
    };
    let lockers: Vec<_> = (0..if contention { rng.range(1, 2) } else { 0 })
        .map(|k| {
            let (pool, stop) = (pool.clone(), stop.clone());
            std::thread::spawn(move || {
                let mut n = 0u64;
                while !stop.load(Ordering::Relaxed) {
                    if k == 0 || n % 2 == 0 {
                        let r = pool.retain(|_, _| true);
                        debug_assert!(r.removed.is_empty());
                    } else {
                        let _ = pool.status();
                    }
                    n += 1;
                }
                n
            })
        })
        .collect();
    spin(delay);
    if contention {
        // the getters decide how long the round lasts
    } else if close {
        pool.close();
    } else {
        for r in &resizes {
            pool.resize(*r);
            spin(rng.below(if storm { 30 } else { 400 }));
        }
    }
    if !few && !contention {
        stop.store(true, Ordering::SeqCst);
    }
    for h in hs {
        match h.join() {
            Ok(Ok(())) => {}
            Ok(Err(e)) => viol.push(Violation { prop, oracle: "race_call_failed", msg: e }),
            Err(_) => viol.push(Violation { prop, oracle: "race_thread_died", msg: "a worker thread died".into() }),
        }
    }
    stop.store(true, Ordering::SeqCst);
    let mut lock_rounds = 0;
    for l in lockers {
        lock_rounds += l.join().unwrap_or(0);
    }
    if contention {
        let peak = cnt.peak.load(Ordering::SeqCst);
        let (created, dropped) = (cnt.created.load(Ordering::SeqCst), cnt.dropped.load(Ordering::SeqCst));
        if peak > start_max {
            viol.push(Violation { prop, oracle: "create_over_limit", msg: format!("max_size {} never changed, nothing was taken, yet create() was called with {} objects alive already ({} created in all)", start_max, peak - 1, created) });
        } else if dropped > 0 {
            // nothing fails, nothing is taken, retain keeps everything: the pool has no reason to let an object go
            viol.push(Violation { prop, oracle: "healthy_object_discarded", msg: format!("{} objects were destroyed although no call failed, nothing was taken or removed and max_size {} never changed ({} created)", dropped, start_max, created) });
        } else if created > start_max {
            viol.push(Violation { prop, oracle: "create_with_idle_available", msg: format!("{} objects created for max_size {}", created, start_max) });
        }
    }
    let mut samples = 0;
    match sampler.join() {
        Ok((n, None)) => samples = n,
        Ok((n, Some(msg))) => {
            samples = n;
            if prop == "C11" {
                viol.push(Violation { prop, oracle: "status_implausible", msg });
            }
        }
        Err(_) => viol.push(Violation { prop, oracle: "race_thread_died", msg: "the status sampler died".into() }),
    }
    // ---- at rest
    let st = pool.status();
    let created = cnt.created.load(Ordering::SeqCst);
    let dropped = cnt.dropped.load(Ordering::SeqCst);
    let live = created - dropped;
    if close {
        if !pool.is_closed() || st.max_size != 0 {
            viol.push(Violation { prop, oracle: "race_not_closed", msg: format!("after close(): is_closed={} status={:?}", pool.is_closed(), st) });
        }
        if live != 0 || st.size != 0 {
            viol.push(Violation { prop, oracle: "closed_pool_keeps_objects", msg: format!("closed pool at rest: {} objects still alive (created {}, dropped {}), status {:?}", live, created, dropped, st) });
        }
        if !matches!(poll_once(pool.timeout_get(&NB)), Some(Err(PoolError::Closed))) {
            viol.push(Violation { prop, oracle: "get_after_close", msg: "get() on the closed pool did not return Closed".into() });
        }
    } else {
        if st.max_size != final_max {
            viol.push(Violation { prop, oracle: "resize_max_size", msg: format!("last resize({}) but status {:?}", final_max, st) });
        }
        if st.size != live || st.available != live || st.waiting != 0 || live > final_max {
            viol.push(Violation { prop, oracle: "status_at_rest", msg: format!("at rest {:?} with {} live objects, max_size {}", st, live, final_max) });
        }
        let mut got = Vec::new();
        let mut probe = String::new();
        for i in 0..=final_max {
            match poll_once(pool.timeout_get(&NB)) {
                Some(Ok(o)) => {
                    probe.push('o');
                    if i == final_max {
                        viol.push(Violation { prop, oracle: "capacity_probe_extra", msg: format!("after resizes {:?} the pool hands out {} objects at once (max_size {})", resizes, i + 1, final_max) });
                    }
                    got.push(o);
                }
                Some(Err(PoolError::Timeout(TimeoutType::Wait))) => {
                    probe.push('t');
                    if i < final_max {
                        viol.push(Violation { prop, oracle: "capacity_probe", msg: format!("after resizes {:?} only {} of max_size {} objects can be taken", resizes, i, final_max) });
                    }
                    break;
                }
                other => {
                    viol.push(Violation { prop, oracle: "capacity_probe_error", msg: format!("probe get: {:?}", other.map(|r| r.map(|_| ()))) });
                    break;
                }
            }
        }
        drop(got);
    }
    let detached = cnt.detached.load(Ordering::SeqCst);
    let dropped_now = cnt.dropped.load(Ordering::SeqCst);
    if detached != dropped_now {
        viol.push(Violation { prop, oracle: "detach_count", msg: format!("{} objects were let go by the pool but detach was called {} times", dropped_now, detached) });
    }
    drop(pool);
    let (c, d) = (cnt.created.load(Ordering::SeqCst), cnt.dropped.load(Ordering::SeqCst));
    if c != d {
        viol.push(Violation { prop, oracle: "objects_leaked", msg: format!("{} created, {} dropped after the pool is gone", c, d) });
    }
    let g = gets.load(Ordering::SeqCst) as u64;
    let desc = format!("managed race close={} regime={} threads={} iters={} start_max={} resizes={:?} gets_ok={} created={} lock_rounds={}", close, if contention { "contention" } else if storm { "storm" } else if dense { "dense" } else if few { "few" } else { "mixed" }, threads, iters, start_max, resizes, g, c, lock_rounds);
    RaceOut { violations: viol, hash: vh_common::fnv1a(desc.as_bytes()), desc: Json::obj().with("engine", "th_race").with("profile_prop", prop).with("seed", seed).with("case", desc), events: g + c as u64 + 2 + samples }
}

// ------------------------------------------------------------------ steady state

pub struct SObj(Arc<Cnt>, pub usize);
impl Drop for SObj {
    fn drop(&mut self) {
        let _ = self.0.dropped.fetch_add(1, Ordering::SeqCst);
    }
}
pub struct SMgr(pub Arc<Cnt>);
impl managed::Manager for SMgr {
    type Type = SObj;
    type Error = ();
    fn create(&self) -> impl Future<Output = Result<SObj, ()>> + Send {
        let c = self.0.clone();
        async move {
            let n = c.created.fetch_add(1, Ordering::SeqCst);
            Ok(SObj(c, n))
        }
    }
    fn recycle(&self, _: &mut SObj, _: &Metrics) -> impl Future<Output = RecycleResult<()>> + Send {
        async { Ok(()) }
    }
    fn detach(&self, _: &mut SObj) {
        let _ = self.0.detached.fetch_add(1, Ordering::SeqCst);
    }
}

/// "Steady state": N objects exist from the start, at most N callers ever hold one, max_size moves
/// between values >= N and another thread runs retain(keep everything). Whatever the interleaving,
/// the pool then has no reason to create, destroy, refuse or reorder anything:
///   * every non-blocking get finds a free slot AND an idle object (at most N-1 are out),
///   * so create() is never called again and nothing is ever dropped,
///   * with one caller the object it receives is fixed by the queue mode (LIFO: always the one it just
///     returned; FIFO: the N objects in a fixed cycle),
///   * retain reports between N - callers and N kept objects and removes none.
pub fn managed_steady_race(prop: &'static str, seed: u64) -> RaceOut {
    let mut rng = Rng::derive(seed, 0x57ead, 0);
    let n = rng.range(2, 5) as usize;
    let single = rng.chance(1, 2);
    let getters = if single { 1 } else { rng.range(1, n as u64) as usize };
    let iters = rng.range(20_000, 80_000) as usize;
    let lifo = rng.chance(1, 2);
    let with_retain = rng.chance(3, 4);
    let with_resize = rng.chance(3, 4) || !with_retain;
    let cnt = Arc::new(Cnt::default());
    let pool: Pool<SMgr> = Pool::builder(SMgr(cnt.clone())).max_size(n).queue_mode(if lifo { managed::QueueMode::Lifo } else { managed::QueueMode::Fifo }).build().unwrap();
    let mut viol: Vec<Violation> = Vec::new();
    {
        let mut first = Vec::new();
        for _ in 0..n {
            match poll_once(pool.timeout_get(&NB)) {
                Some(Ok(o)) => first.push(o),
                other => viol.push(Violation { prop, oracle: "race_call_failed", msg: format!("filling the pool: {:?}", other.map(|r| r.map(|_| ()))) }),
            }
        }
        for o in first {
            drop(o);
        }
    }
    let stop = Arc::new(AtomicBool::new(false));
    let mut hs = Vec::new();
    for _ in 0..getters {
        let pool = pool.clone();
        hs.push(std::thread::spawn(move || -> Result<u64, (&'static str, String)> {
            let mut seen: Vec<usize> = Vec::new();
            for i in 0..iters {
                match std::panic::catch_unwind(std::panic::AssertUnwindSafe(|| poll_once(pool.timeout_get(&NB)))) {
                    Ok(Some(Ok(o))) => {
                        if single {
                            let id = o.1;
                            let k = seen.len();
                            if lifo && k > 0 && seen[k - 1] != id {
                                return Err(("reuse_order", format!("LIFO pool, one caller: call {} received object {} although it had just returned object {} (objects seen so far: {:?})", i, id, seen[k - 1], &seen[k.saturating_sub(8)..])));
                            }
                            if !lifo && k >= n && seen[k - n] != id {
                                return Err(("reuse_order", format!("FIFO pool of {} objects, one caller: call {} received object {}, the fixed cycle demands object {} (last objects: {:?})", n, i, id, seen[k - n], &seen[k.saturating_sub(8)..])));
                            }
                            if seen.len() < 4 * n + 8 {
                                seen.push(id);
                            } else {
                                let _ = seen.remove(0);
                                seen.push(id);
                            }
                        }
                        drop(o);
                    }
                    Ok(Some(Err(e))) => return Err(("nonblocking_get_failed", format!("call {}: get failed with {:?} although at most {} of {} slots can be in use", i, e, getters - 1, n))),
                    Ok(None) => return Err(("race_call_failed", "zero-wait get suspended".into())),
                    Err(p) => return Err(("race_call_failed", format!("get panicked: {}", vh_common::panic_message(&*p)))),
                }
            }
            Ok(iters as u64)
        }));
    }
    let retainer = {
        let (pool, stop) = (pool.clone(), stop.clone());
        std::thread::spawn(move || -> (u64, Option<String>) {
            let mut k = 0u64;
            if !with_retain {
                return (0, None);
            }
            while !stop.load(Ordering::Relaxed) {
                let r = pool.retain(|_, _| true);
                k += 1;
                if !r.removed.is_empty() {
                    return (k, Some(format!("retain(keep everything) removed {} objects", r.removed.len())));
                }
                if r.retained > n || r.retained + getters < n {
                    return (k, Some(format!("retain(keep everything) reports {} retained objects: {} exist and at most {} are out", r.retained, n, getters)));
                }
            }
            (k, None)
        })
    };
    let resizer = {
        let (pool, stop) = (pool.clone(), stop.clone());
        let mut r2 = Rng::derive(seed, 0x57ead, 1);
        std::thread::spawn(move || -> u64 {
            let mut k = 0u64;
            if !with_resize {
                return 0;
            }
            while !stop.load(Ordering::Relaxed) {
                pool.resize(n + if k % 2 == 0 { r2.range(1, 3) as usize } else { 0 });
                k += 1;
                spin(r2.below(60));
            }
            pool.resize(n);
            k
        })
    };
    let mut gets = 0;
    for h in hs {
        match h.join() {
            Ok(Ok(g)) => gets += g,
            Ok(Err((oracle, msg))) => viol.push(Violation { prop, oracle, msg }),
            Err(_) => viol.push(Violation { prop, oracle: "race_thread_died", msg: "a worker thread died".into() }),
        }
    }
    stop.store(true, Ordering::SeqCst);
    let resizes = resizer.join().unwrap_or(0);
    let retains = match retainer.join() {
        Ok((k, None)) => k,
        Ok((k, Some(msg))) => {
            viol.push(Violation { prop, oracle: "retain_report", msg });
            k
        }
        Err(_) => {
            viol.push(Violation { prop, oracle: "race_thread_died", msg: "the retain thread died".into() });
            0
        }
    };
    let (created, dropped, detached) = (cnt.created.load(Ordering::SeqCst), cnt.dropped.load(Ordering::SeqCst), cnt.detached.load(Ordering::SeqCst));
    if dropped > 0 || detached > 0 {
        viol.push(Violation { prop, oracle: "healthy_object_discarded", msg: format!("{} objects were destroyed ({} detached) although nothing failed, nothing was removed and max_size never fell below the {} objects", dropped, detached, n) });
    } else if created > n {
        viol.push(Violation { prop, oracle: "create_with_idle_available", msg: format!("create() was called {} times: {} objects existed from the start and at most {} of them were ever out at once, so every get() had an idle object to try", created, n, getters) });
    }
    let st = pool.status();
    if viol.is_empty() && (st.size != n || st.available != n || st.max_size != n || st.waiting != 0) {
        viol.push(Violation { prop, oracle: "status_at_rest", msg: format!("at rest {:?} with {} objects and max_size {}", st, n, n) });
    }
    drop(pool);
    let (c, d) = (cnt.created.load(Ordering::SeqCst), cnt.dropped.load(Ordering::SeqCst));
    if c != d {
        viol.push(Violation { prop, oracle: "objects_leaked", msg: format!("{} created, {} dropped after the pool is gone", c, d) });
    }
    let desc = format!("managed race regime=steady objects={} getters={} iters={} lifo={} retain={} resize={} gets_ok={} created={} resizes={} retains={}", n, getters, iters, lifo, with_retain, with_resize, gets, c, resizes, retains);
    let shape = format!("steady {} {} {} {} {} {}", n, getters, lifo, with_retain, with_resize, seed);
    RaceOut { violations: viol, hash: vh_common::fnv1a(shape.as_bytes()), desc: Json::obj().with("engine", "th_race").with("profile_prop", prop).with("seed", seed).with("case", desc), events: gets + resizes + retains }
}

// ------------------------------------------------------------------ last handle dropped against objects in use

/// "Objects that outlive every pool handle can still be used and dropped safely": the last `Pool`
/// handle is dropped on one thread while another thread uses objects it has checked out (take, the
/// handle accessor, metrics, plain drop). No call may panic, every object is destroyed exactly once, and
/// detach is never called on behalf of a pool that is gone ... at most once per object in any case.
pub fn handle_drop_race(prop: &'static str, seed: u64) -> RaceOut {
    use std::sync::atomic::AtomicU64;
    let mut rng = Rng::derive(seed, 0xd509, 0);
    // (building a pool reads /proc/cpuinfo for its default size: a trial costs about 0.1 ms whatever the harness does)
    let trials = rng.range(1500, 4000) as u64;
    let mut viol: Vec<Violation> = Vec::new();
    let mut by_use = [0u64; 4];
    let mut ahead = 0u64; // trials in which the handle was gone before the use started
    let mut overlapped = 0u64; // trials in which the handle went while the use was under way
    let mut events = 0u64;
    // one helper thread for the whole round (spinning: a thread start per trial would be a hundred times
    // longer than the window)
    let slot: Arc<std::sync::Mutex<Option<Pool<LMgr>>>> = Arc::new(std::sync::Mutex::new(None));
    let go = Arc::new(AtomicU64::new(0));
    let gone = Arc::new(AtomicU64::new(0));
    let delay = Arc::new(AtomicU64::new(0));
    let helper = {
        let (slot, go, gone, delay) = (slot.clone(), go.clone(), gone.clone(), delay.clone());
        std::thread::spawn(move || {
            let mut next = 1u64;
            loop {
                let g = loop {
                    let g = go.load(Ordering::Acquire);
                    if g >= next {
                        break g;
                    }
                    std::hint::spin_loop();
                };
                if g == u64::MAX {
                    return;
                }
                let p = slot.lock().unwrap().take();
                spin(delay.load(Ordering::Relaxed));
                drop(p);
                gone.store(g, Ordering::Release);
                next = g + 1;
            }
        })
    };
    // feedback: keep the two sides close to each other
    let mut lead: i64 = 0;
    for trial in 1..=trials {
        let cnt = Arc::new(Cnt::default());
        let max = rng.range(1, 3) as usize;
        let pool: Pool<LMgr> = Pool::builder(LMgr(cnt.clone())).max_size(max).queue_mode(if rng.chance(1, 2) { managed::QueueMode::Lifo } else { managed::QueueMode::Fifo }).build().unwrap();
        let mut objs = Vec::new();
        for _ in 0..rng.range(1, max as u64) {
            if let Some(Ok(o)) = poll_once(pool.timeout_get(&NB)) {
                objs.push(o);
            }
        }
        // sometimes an idle object stays in the pool, sometimes the pool had more handles before
        if rng.chance(1, 3) && objs.len() > 1 {
            drop(objs.pop());
        }
        if rng.chance(1, 3) {
            drop(pool.clone());
        }
        let usage = rng.below(4) as usize;
        by_use[usage] += 1;
        delay.store((lead.max(0) as u64) + rng.below(24), Ordering::Relaxed);
        let d_use = ((-lead).max(0) as u64) + rng.below(24);
        *slot.lock().unwrap() = Some(pool);
        go.store(trial, Ordering::Release);
        spin(d_use);
        let was_gone = gone.load(Ordering::Acquire) == trial;
        let r = std::panic::catch_unwind(std::panic::AssertUnwindSafe(|| {
            let o = objs.pop().unwrap();
            match usage {
                0 => drop(managed::Object::take(o)),
                1 => {
                    let p = managed::Object::pool(&o);
                    let st = p.as_ref().map(|p| p.status());
                    drop(p);
                    drop(o);
                    let _ = st;
                }
                2 => {
                    let m = managed::Object::metrics(&o);
                    let _ = m.recycle_count;
                    drop(o);
                }
                _ => drop(o),
            }
        }));
        let still_there = gone.load(Ordering::Acquire) != trial;
        drop(objs);
        while gone.load(Ordering::Acquire) != trial {
            std::hint::spin_loop();
        }
        events += 3;
        if was_gone {
            ahead += 1;
            lead += 1; // the handle went first: it waits longer next time
        } else if still_there {
            lead -= 1; // the use was over before the handle went: the use waits longer next time
        } else {
            overlapped += 1;
        }
        lead = lead.clamp(-400, 400);
        if let Err(p) = r {
            viol.push(Violation { prop, oracle: "object_use_panicked", msg: format!("trial {}: {} on an object whose pool's last handle was being dropped on another thread panicked: {}", trial, ["Object::take", "Object::pool", "Object::metrics + drop", "drop"][usage], vh_common::panic_message(&*p)) });
            break;
        }
        let (c, d, det) = (cnt.created.load(Ordering::SeqCst), cnt.dropped.load(Ordering::SeqCst), cnt.detached.load(Ordering::SeqCst));
        if c != d {
            viol.push(Violation { prop, oracle: "objects_leaked", msg: format!("trial {}: {} objects created, {} destroyed after the pool and all its objects are gone", trial, c, d) });
            break;
        }
        if det > d {
            viol.push(Violation { prop, oracle: "detach_twice", msg: format!("trial {}: {} objects, detach called {} times", trial, d, det) });
            break;
        }
    }
    go.store(u64::MAX, Ordering::Release);
    let _ = helper.join();
    let desc = format!("last-handle race trials={} uses(take/pool/metrics/drop)={:?} handle_gone_first={} overlapped={}", trials, by_use, ahead, overlapped);
    let shape = format!("handle_drop {} {}", seed, trials);
    RaceOut { violations: viol, hash: vh_common::fnv1a(shape.as_bytes()), desc: Json::obj().with("engine", "th_race").with("profile_prop", prop).with("seed", seed).with("case", desc), events }
}

// ------------------------------------------------------------------ unmanaged

pub struct UCnt {
    pub dropped: AtomicUsize,
}
pub struct UL(Arc<UCnt>);
impl Drop for UL {
    fn drop(&mut self) {
        let _ = self.0.dropped.fetch_add(1, Ordering::SeqCst);
    }
}

/// close() on one thread against one operation on another, aligned by feedback so that the two overlap in
/// most trials: the return of an object, try_add, add (polled once), try_remove, try_get + return. At
/// rest the closed pool holds nothing, reports nothing, and every object was destroyed or handed back
/// to its owner exactly once.
pub fn unmanaged_close_race(prop: &'static str, seed: u64) -> RaceOut {
    use deadpool::unmanaged::{Pool as UPool, PoolError as UErr};
    use std::sync::atomic::AtomicU64;
    let mut rng = Rng::derive(seed, 0xc105e, 0);
    let trials = rng.range(20_000, 60_000) as u64;
    let mut viol: Vec<Violation> = Vec::new();
    let mut by_use = [0u64; 5];
    let (mut ahead, mut overlapped) = (0u64, 0u64);
    let slot: Arc<std::sync::Mutex<Option<UPool<UL>>>> = Arc::new(std::sync::Mutex::new(None));
    let go = Arc::new(AtomicU64::new(0));
    let done = Arc::new(AtomicU64::new(0));
    let delay = Arc::new(AtomicU64::new(0));
    let helper = {
        let (slot, go, done, delay) = (slot.clone(), go.clone(), done.clone(), delay.clone());
        std::thread::spawn(move || {
            let mut next = 1u64;
            loop {
                let g = loop {
                    let g = go.load(Ordering::Acquire);
                    if g >= next {
                        break g;
                    }
                    std::hint::spin_loop();
                };
                if g == u64::MAX {
                    return;
                }
                let p = slot.lock().unwrap().take();
                spin(delay.load(Ordering::Relaxed));
                if let Some(p) = p.as_ref() {
                    p.close();
                }
                done.store(g, Ordering::Release);
                drop(p);
                next = g + 1;
            }
        })
    };
    let mut lead: i64 = 0;
    for trial in 1..=trials {
        let cnt = Arc::new(UCnt { dropped: AtomicUsize::new(0) });
        let max = rng.range(1, 4) as usize;
        let pool: UPool<UL> = UPool::new(max);
        let mut made = 0usize;
        let prefill = rng.range(1, max as u64) as usize;
        for _ in 0..prefill {
            made += 1;
            if pool.try_add(UL(cnt.clone())).is_err() {
                unreachable!("prefill");
            }
        }
        let usage = rng.below(5) as usize;
        by_use[usage] += 1;
        // what the other thread will work with is prepared before the start signal
        let held = if usage == 0 { poll_once(pool.timeout_get(Some(Duration::ZERO))).and_then(|r| r.ok()) } else { None };
        let room = prefill < max;
        let fresh = if matches!(usage, 1 | 2) {
            made += 1;
            Some(UL(cnt.clone()))
        } else {
            None
        };
        let mut handed_back = 0usize;
        delay.store((lead.max(0) as u64) + rng.below(24), Ordering::Relaxed);
        let d_use = ((-lead).max(0) as u64) + rng.below(24);
        *slot.lock().unwrap() = Some(pool.clone());
        go.store(trial, Ordering::Release);
        spin(d_use);
        let was_done = done.load(Ordering::Acquire) == trial;
        let mut note = String::new();
        match usage {
            0 => drop(held),
            1 => match pool.try_add(fresh.unwrap()) {
                Ok(()) => note = "try_add -> Ok".into(),
                Err((o, e)) => {
                    note = format!("try_add -> Err({:?})", e);
                    if matches!(e, UErr::Timeout) && room && !was_done {
                        // (may still be legitimate when close() got in between: only judged below if it did not)
                    }
                    handed_back += 1;
                    drop(o);
                }
            },
            2 => match poll_once(pool.add(fresh.unwrap())) {
                Some(Ok(())) => note = "add -> Ok".into(),
                Some(Err((o, e))) => {
                    note = format!("add -> Err({:?})", e);
                    handed_back += 1;
                    drop(o);
                }
                None => note = "add -> pending (dropped)".into(),
            },
            3 => match pool.try_remove() {
                Ok(o) => {
                    note = "try_remove -> Ok".into();
                    handed_back += 1;
                    drop(o);
                }
                Err(e) => note = format!("try_remove -> Err({:?})", e),
            },
            _ => match pool.try_get() {
                Ok(o) => {
                    note = "try_get -> Ok, returned".into();
                    drop(o);
                }
                Err(e) => note = format!("try_get -> Err({:?})", e),
            },
        }
        let still_open = done.load(Ordering::Acquire) != trial;
        while done.load(Ordering::Acquire) != trial {
            std::hint::spin_loop();
        }
        if was_done {
            ahead += 1;
            lead += 1;
        } else if still_open {
            lead -= 1;
        } else {
            overlapped += 1;
        }
        lead = lead.clamp(-400, 400);
        // ---- at rest: both calls have returned
        let st = pool.status();
        let dropped = cnt.dropped.load(Ordering::SeqCst);
        let what = ["return of an object", "try_add", "add", "try_remove", "try_get + return"][usage];
        if !pool.is_closed() {
            viol.push(Violation { prop, oracle: "race_not_closed", msg: format!("trial {}: close() returned but is_closed() is false", trial) });
            break;
        }
        if st.size != 0 || st.available != 0 || st.waiting != 0 {
            viol.push(Violation { prop, oracle: "closed_pool_holds_objects", msg: format!("trial {}: close() against {} ({}): at rest the closed pool reports {:?} ({} of {} objects destroyed)", trial, what, note, st, dropped, made) });
            break;
        }
        // every object is gone by now: destroyed by the pool, or handed back to the caller and destroyed there
        if dropped != made {
            viol.push(Violation { prop, oracle: "kept_after_close", msg: format!("trial {}: close() against {} ({}): {} objects were made, {} destroyed ({} of them handed back to the caller) although the closed pool reports {:?}", trial, what, note, made, dropped, handed_back, st) });
            break;
        }
        drop(pool);
    }
    go.store(u64::MAX, Ordering::Release);
    let _ = helper.join();
    let desc = format!("unmanaged close race trials={} uses(return/try_add/add/try_remove/try_get)={:?} close_first={} overlapped={}", trials, by_use, ahead, overlapped);
    let shape = format!("u_close_race {} {}", seed, trials);
    RaceOut { violations: viol, hash: vh_common::fnv1a(shape.as_bytes()), desc: Json::obj().with("engine", "uth_race").with("profile_prop", prop).with("seed", seed).with("case", desc), events: trials * 3 }
}

/// Unmanaged pool: get/return/add/remove at full speed, optionally with a close() in the middle.
pub fn unmanaged_race(prop: &'static str, seed: u64, close: bool) -> RaceOut {
    use deadpool::unmanaged::{Pool as UPool, PoolError as UErr};
    let mut rng = Rng::derive(seed, 0x7acf, close as u64);
    if close && !cfg!(miri) && std::env::var_os("VERIF_RACE_SMALL").is_none() && seed % 4 == 1 {
        return unmanaged_close_race(prop, seed);
    }
    if !close && !cfg!(miri) && std::env::var_os("VERIF_RACE_SMALL").is_none() && rng.chance(1, 3) {
        return unmanaged_bounds_race(prop, seed);
    }
    // half of the rounds are "return-heavy": many threads doing nothing but get + return on a full pool
    let dense = rng.chance(1, 2);
    let small = cfg!(miri) || std::env::var_os("VERIF_RACE_SMALL").is_some();
    let threads = if small { 3 } else if dense { rng.range(16, 64) as usize } else { rng.range(3, 24) as usize };
    let iters = if small { rng.range(3, 9) as usize } else { rng.range(200, 1500) as usize };
    let max = rng.range(1, if small { 3 } else { 8 }) as usize;
    let prefill = if dense { max } else { rng.usize_below(max + 1) };
    let delay = if small { rng.below(30) } else { rng.below(if dense { 60_000 } else { 4000 }) };
    let cnt = Arc::new(UCnt { dropped: AtomicUsize::new(0) });
    let pool: UPool<UL> = UPool::new(max);
    let made = Arc::new(AtomicUsize::new(0));
    // objects currently owned by the harness (never given to the pool, or handed back by it)
    let outside = Arc::new(AtomicUsize::new(0));
    for _ in 0..prefill {
        let _ = made.fetch_add(1, Ordering::SeqCst);
        if pool.try_add(UL(cnt.clone())).is_err() {
            unreachable!("prefill");
        }
    }
    let mut viol: Vec<Violation> = Vec::new();
    let mut hs = Vec::new();
    for t in 0..threads {
        let (pool, cnt, made, outside) = (pool.clone(), cnt.clone(), made.clone(), outside.clone());
        hs.push(std::thread::spawn(move || -> Result<(), String> {
            let mut keep: Vec<UL> = Vec::new();
            for i in 0..iters {
                let r = std::panic::catch_unwind(std::panic::AssertUnwindSafe(|| -> Result<(), String> {
                    match if dense { 0 } else { (i + t) % 7 } {
                        0 | 1 | 2 | 3 if (i + 2 * t) % 3 == 0 => {
                            // a blocking get(), polled once and given up if it would have to wait
                            match poll_once(pool.get()) {
                                Some(Ok(o)) => drop(o),
                                Some(Err(UErr::Closed)) | None => {}
                                Some(Err(e)) => return Err(format!("get: {:?}", e)),
                            }
                        }
                        0 | 1 | 2 | 3 => match pool.try_get() {
                            Ok(o) => drop(o),
                            Err(UErr::Timeout) | Err(UErr::Closed) => {}
                            Err(e) => return Err(format!("try_get: {:?}", e)),
                        },
                        4 => {
                            let o = keep.pop().unwrap_or_else(|| {
                                let _ = made.fetch_add(1, Ordering::SeqCst);
                                let _ = outside.fetch_add(1, Ordering::SeqCst);
                                UL(cnt.clone())
                            });
                            // from now on the pool may own it
                            let _ = outside.fetch_sub(1, Ordering::SeqCst);
                            match pool.try_add(o) {
                                Ok(()) => {}
                                Err((o, _)) => {
                                    let _ = outside.fetch_add(1, Ordering::SeqCst);
                                    keep.push(o);
                                }
                            }
                        }
                        5 => {
                            if let Ok(o) = pool.try_remove() {
                                let _ = outside.fetch_add(1, Ordering::SeqCst);
                                keep.push(o);
                            }
                        }
                        _ => {
                            if let Ok(o) = pool.try_get() {
                                let _ = outside.fetch_add(1, Ordering::SeqCst);
                                keep.push(deadpool::unmanaged::Object::take(o));
                            }
                        }
                    }
                    Ok(())
                }));
                match r {
                    Ok(Ok(())) => {}
                    Ok(Err(e)) => return Err(e),
                    Err(p) => return Err(format!("a call panicked: {}", vh_common::panic_message(&*p))),
                }
                if keep.len() > 2 {
                    let _ = outside.fetch_sub(1, Ordering::SeqCst);
                    drop(keep.pop());
                }
            }
            // what the thread still owns stays alive until the verdict
            std::mem::forget(keep);
            Ok(())
        }));
    }
    spin(delay);
    if close {
        pool.close();
    }
    for h in hs {
        match h.join() {
            Ok(Ok(())) => {}
            Ok(Err(e)) => viol.push(Violation { prop, oracle: "race_call_failed", msg: e }),
            Err(_) => viol.push(Violation { prop, oracle: "race_thread_died", msg: "a worker thread died".into() }),
        }
    }
    // ---- at rest: every object is either outside (harness owned, alive), destroyed, or inside the pool
    let made_n = made.load(Ordering::SeqCst);
    let dropped = cnt.dropped.load(Ordering::SeqCst);
    let outside_n = outside.load(Ordering::SeqCst);
    // objects dropped by the harness itself were counted out of `outside` before they were dropped
    let inside = made_n as i64 - dropped as i64 - outside_n as i64;
    let st = pool.status();
    if close {
        if st.waiting != 0 {
            viol.push(Violation { prop, oracle: "status_at_rest", msg: format!("closed pool at rest, every call has returned, but status() reports {} waiting callers ({:?})", st.waiting, st) });
        }
        if inside != 0 || st.size != 0 || st.available != 0 {
            viol.push(Violation { prop, oracle: "closed_pool_holds_objects", msg: format!("closed pool at rest: {} objects alive inside (made {}, dropped {}, owned by callers {}), status {:?}", inside, made_n, dropped, outside_n, st) });
        }
        if !matches!(pool.try_get(), Err(UErr::Closed)) {
            viol.push(Violation { prop, oracle: "get_after_close", msg: "try_get on the closed pool did not return Closed".into() });
        }
    } else {
        if inside < 0 || inside as usize > max || st.size as i64 != inside || st.available as i64 != inside || st.waiting != 0 {
            viol.push(Violation { prop, oracle: "status_at_rest", msg: format!("open pool at rest: {} objects inside by conservation (made {}, dropped {}, owned by callers {}), max_size {}, status {:?}", inside, made_n, dropped, outside_n, max, st) });
        }
        // drain: exactly `inside` objects come out, then exactly max_size go in
        let mut out = Vec::new();
        while let Ok(o) = pool.try_get() {
            out.push(deadpool::unmanaged::Object::take(o));
            if out.len() > max + 2 {
                break;
            }
        }
        if out.len() as i64 != inside {
            viol.push(Violation { prop, oracle: "objects_lost", msg: format!("{} objects should be inside but {} could be taken out", inside, out.len()) });
        }
        let mut accepted = 0;
        while pool.try_add(UL(cnt.clone())).is_ok() {
            accepted += 1;
            if accepted > max + 2 {
                break;
            }
        }
        if accepted != max {
            viol.push(Violation { prop, oracle: "capacity_probe", msg: format!("empty pool accepted {} objects, max_size {}", accepted, max) });
        }
        drop(out);
    }
    let desc = format!("unmanaged race close={} threads={} iters={} max={} prefill={} made={} dropped={}", close, threads, iters, max, prefill, made_n, dropped);
    RaceOut { violations: viol, hash: vh_common::fnv1a(desc.as_bytes()), desc: Json::obj().with("engine", "uth_race").with("profile_prop", prop).with("seed", seed).with("case", desc), events: (made_n + dropped) as u64 + (threads * iters) as u64 }
}

/// Unmanaged pool, non-waiting calls whose outcome is known whatever the interleaving:
/// * "never empty": G threads do nothing but try_get + return on a pool that holds G + 1 objects, so at
///   least one object is idle at every instant and try_get can never legitimately report Timeout;
/// * "never full": the universe has exactly max_size objects; whoever holds one outside the pool
///   (after try_remove) must be able to try_add it back at once - the pool cannot be full without it.
/// A further thread keeps asking is_closed() / status(), which must not disturb anybody.
pub fn unmanaged_bounds_race(prop: &'static str, seed: u64) -> RaceOut {
    use deadpool::unmanaged::{Pool as UPool, PoolError as UErr};
    let mut rng = Rng::derive(seed, 0x7ad0, 0);
    let regime = rng.below(3);
    let never_full = regime == 0;
    // third regime, "contended": fewer objects than threads and gets with a timeout of 30 s that are polled once
    // and dropped if they would have to wait. Whatever the interleaving, such a call cannot report Timeout (30 s
    // have not passed) - it is served or it is still waiting.
    let contended = regime == 2;
    let g = if contended { rng.range(2, 6) as usize } else { rng.range(1, 6) as usize };
    let n = if never_full { rng.range(1, 4) as usize } else if contended { rng.range(1, (g - 1) as u64) as usize } else { g + 1 };
    let iters = rng.range(3000, 20000) as usize;
    let querier = rng.chance(2, 3);
    let cnt = Arc::new(UCnt { dropped: AtomicUsize::new(0) });
    // a runtime only to give the timed calls their timer: nothing ever waits in these regimes
    let timer_rt = tokio::runtime::Builder::new_current_thread().enable_time().build().expect("rt");
    let timed = contended || (!never_full && rng.chance(1, 2));
    let pool: UPool<UL> = if timed {
        UPool::from_config(&deadpool::unmanaged::PoolConfig { max_size: n, timeout: None, runtime: Some(deadpool::Runtime::Tokio1) })
    } else {
        UPool::new(n)
    };
    for _ in 0..n {
        if pool.try_add(UL(cnt.clone())).is_err() {
            unreachable!("prefill");
        }
    }
    let stop = Arc::new(AtomicBool::new(false));
    let calls = Arc::new(AtomicUsize::new(0));
    let mut hs = Vec::new();
    for _ in 0..g {
        let (pool, calls) = (pool.clone(), calls.clone());
        let handle = timer_rt.handle().clone();
        hs.push(std::thread::spawn(move || -> Result<(), String> {
            let _in_rt = handle.enter();
            for i in 0..iters {
                let r = std::panic::catch_unwind(std::panic::AssertUnwindSafe(|| -> Result<(), String> {
                    if never_full {
                        match pool.try_remove() {
                            Ok(o) => match pool.try_add(o) {
                                Ok(()) => {}
                                Err((o, e)) => {
                                    std::mem::forget(o);
                                    return Err(format!("try_add_refused_with_room: iteration {}: try_add of an object just removed failed with {:?} although the universe has only max_size objects", i, e));
                                }
                            },
                            Err(UErr::Timeout) => {}
                            Err(e) => return Err(format!("closed_on_open_pool: iteration {}: try_remove on an open pool failed with {:?}", i, e)),
                        }
                    } else if contended {
                        if i % 5 == 4 {
                            // plain non-waiting calls in between keep the counters moving
                            if let Ok(o) = pool.try_get() {
                                drop(o);
                            }
                        } else {
                            match poll_once(pool.timeout_get(Some(Duration::from_secs(30)))) {
                                Some(Ok(o)) => drop(o),
                                Some(Err(e)) => return Err(format!("timeout_early: iteration {}: timeout_get(30 s) failed with {:?} at its first poll", i, e)),
                                None => {}
                            }
                        }
                    } else if timed && i % 2 == 1 {
                        // a get with a generous timeout: an object is idle at every instant, so it is served at the
                        // first poll (a Pending would be odd but is not judged; an error is)
                        match poll_once(pool.timeout_get(Some(Duration::from_secs(30)))) {
                            Some(Ok(o)) => drop(o),
                            Some(Err(e)) => return Err(format!("nonblocking_get_failed: iteration {}: timeout_get(30 s) failed with {:?} at once although at least one object is idle at every instant", i, e)),
                            None => {}
                        }
                    } else {
                        match pool.try_get() {
                            Ok(o) => drop(o),
                            Err(e) => return Err(format!("nonblocking_get_failed: iteration {}: try_get failed with {:?} although at least one object is idle at every instant", i, e)),
                        }
                    }
                    Ok(())
                }));
                let _ = calls.fetch_add(1, Ordering::Relaxed);
                match r {
                    Ok(Ok(())) => {}
                    Ok(Err(e)) => return Err(e),
                    Err(p) => return Err(format!("call_panicked: {}", vh_common::panic_message(&*p))),
                }
                if i % 4 == 0 {
                    let st = pool.status();
                    let big = 1usize << 40;
                    if st.size >= big || st.available >= big || st.waiting >= big {
                        return Err(format!("status_wrapped: status() reports a wrapped counter: {:?}", st));
                    }
                }
            }
            Ok(())
        }));
    }
    let q = if querier {
        let (pool, stop) = (pool.clone(), stop.clone());
        Some(std::thread::spawn(move || -> Result<u64, String> {
            let mut k = 0u64;
            while !stop.load(Ordering::Relaxed) {
                if pool.is_closed() {
                    return Err("is_closed_true: is_closed() is true on a pool that was never closed".into());
                }
                // status() reads its counters one after the other: mid-flight only "no counter wraps around"
                // can be demanded of it (and it must not disturb the callers)
                let st = pool.status();
                let big = 1usize << 40;
                if st.size >= big || st.available >= big || st.waiting >= big || st.max_size >= big {
                    return Err(format!("status_wrapped: status() reports a wrapped counter: {:?}", st));
                }
                k += 1;
            }
            Ok(k)
        }))
    } else {
        None
    };
    let mut viol: Vec<Violation> = Vec::new();
    let mut push = |e: String| {
        let (oracle, msg) = match e.split_once(": ") {
            Some(("try_add_refused_with_room", m)) => ("try_add_refused_with_room", m.to_string()),
            Some(("closed_on_open_pool", m)) => ("closed_on_open_pool", m.to_string()),
            Some(("nonblocking_get_failed", m)) => ("nonblocking_get_failed", m.to_string()),
            Some(("call_panicked", m)) => ("call_panicked", m.to_string()),
            Some(("is_closed_true", m)) => ("is_closed_true", m.to_string()),
            Some(("status_implausible", m)) => ("status_implausible", m.to_string()),
            Some(("status_wrapped", m)) => ("status_wrapped", m.to_string()),
            Some(("timeout_early", m)) => ("timeout_early", m.to_string()),
            _ => ("race_call_failed", e.clone()),
        };
        viol.push(Violation { prop, oracle, msg });
    };
    for h in hs {
        match h.join() {
            Ok(Ok(())) => {}
            Ok(Err(e)) => push(e),
            Err(_) => push("race_thread_died: a worker thread died".into()),
        }
    }
    stop.store(true, Ordering::SeqCst);
    let mut queries = 0;
    if let Some(q) = q {
        match q.join() {
            Ok(Ok(k)) => queries = k,
            Ok(Err(e)) => push(e),
            Err(_) => push("race_thread_died: the query thread died".into()),
        }
    }
    // at rest: everything is back inside
    let st = pool.status();
    let dropped = cnt.dropped.load(Ordering::SeqCst);
    if viol.is_empty() && (st.size != n || st.available != n || st.waiting != 0 || dropped != 0) {
        viol.push(Violation { prop, oracle: "status_at_rest", msg: format!("{} objects, none outside, {} destroyed: status {:?}", n, dropped, st) });
    }
    let desc = format!("unmanaged bounds race regime={} timed_gets={} threads={} objects={} iters={} querier={} queries={}", if never_full { "never_full" } else if contended { "contended" } else { "never_empty" }, timed, g, n, iters, querier, queries);
    drop(timer_rt);
    RaceOut { violations: viol, hash: vh_common::fnv1a(desc.as_bytes()), desc: Json::obj().with("engine", "uth_race").with("profile_prop", prop).with("seed", seed).with("case", desc), events: calls.load(Ordering::Relaxed) as u64 + queries }
}

/// max_size far away from the small sizes of the histories: exactly `n` objects can be out at once.
pub fn managed_big_pool(prop: &'static str, n: usize, lifo: bool) -> Vec<Violation> {
    let mut v = Vec::new();
    let cnt = Arc::new(Cnt::default());
    let pool: Pool<LMgr> = Pool::builder(LMgr(cnt.clone())).max_size(n).queue_mode(if lifo { managed::QueueMode::Lifo } else { managed::QueueMode::Fifo }).build().unwrap();
    for round in 0..2 {
        let mut held = Vec::with_capacity(n);
        for i in 0..n {
            match poll_once(pool.timeout_get(&NB)) {
                Some(Ok(o)) => held.push(o),
                other => {
                    v.push(Violation { prop, oracle: "capacity_probe", msg: format!("pool with max_size {} (round {}): get number {} ended with {:?} (status {:?})", n, round, i + 1, other.map(|r| r.map(|_| ())), pool.status()) });
                    return v;
                }
            }
        }
        if let Some(Ok(_)) = poll_once(pool.timeout_get(&NB)) {
            v.push(Violation { prop, oracle: "capacity_probe_extra", msg: format!("pool with max_size {} handed out object number {}", n, n + 1) });
        }
        let st = pool.status();
        if st.max_size != n || st.size != n || st.available != 0 {
            v.push(Violation { prop, oracle: "status_at_rest", msg: format!("pool with max_size {} and all objects out reports {:?}", n, st) });
        }
        drop(held);
    }
    let created = cnt.created.load(Ordering::SeqCst);
    if created != n {
        v.push(Violation { prop, oracle: "create_with_idle_available", msg: format!("pool with max_size {}: {} objects were created over two rounds of {} gets", n, created, n) });
    }
    v
}

