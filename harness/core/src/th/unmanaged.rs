//! Thread-level engine for the unmanaged pool (filled in below).
