//! Thread-level engine for the unmanaged pool (C05, C12).

use std::collections::BTreeMap;
use std::panic::{catch_unwind, AssertUnwindSafe};
use std::sync::atomic::{AtomicBool, AtomicUsize, Ordering};
use std::sync::{Arc, Mutex};
use std::time::Duration;

use deadpool::unmanaged::{Object, Pool, PoolError};
use vh_common::{panic_message, Json, Violation};

use super::*;

#[derive(Clone, Copy, Debug, PartialEq, Eq)]
pub struct UInfo {
    /// the pool is responsible for the object (it was added and not handed back)
    pub in_pool_care: bool,
    pub destructed: bool,
}

pub struct USh {
    pub prop: &'static str,
    pub objs: Mutex<Vec<UInfo>>,
    pub close_started: AtomicBool,
    pub violations: Mutex<Vec<Violation>>,
    pub foreign: AtomicUsize,
    pub events: AtomicUsize,
}

impl USh {
    pub fn new(prop: &'static str) -> Arc<USh> {
        Arc::new(USh {
            prop,
            objs: Mutex::new(Vec::new()),
            close_started: AtomicBool::new(false),
            violations: Mutex::new(Vec::new()),
            foreign: AtomicUsize::new(0),
            events: AtomicUsize::new(0),
        })
    }
    pub fn viol(&self, props: &[&'static str], oracle: &'static str, msg: String) {
        if props.contains(&self.prop) || props.contains(&"*") {
            self.violations.lock().unwrap().push(Violation { prop: self.prop, oracle, msg });
        } else {
            let _ = self.foreign.fetch_add(1, Ordering::SeqCst);
        }
    }
    pub fn new_obj(self: &Arc<Self>) -> UTObj {
        let mut o = self.objs.lock().unwrap();
        o.push(UInfo { in_pool_care: false, destructed: false });
        UTObj { id: (o.len() - 1) as u32, sh: self.clone() }
    }
    fn care(&self, id: u32, v: bool) {
        self.objs.lock().unwrap()[id as usize].in_pool_care = v;
    }
}

pub struct UTObj {
    pub id: u32,
    sh: Arc<USh>,
}
impl Drop for UTObj {
    fn drop(&mut self) {
        let _ = self.sh.events.fetch_add(1, Ordering::Relaxed);
        let mut o = self.sh.objs.lock().unwrap();
        let i = &mut o[self.id as usize];
        i.destructed = true;
        let care = i.in_pool_care;
        drop(o);
        if care && !self.sh.close_started.load(Ordering::SeqCst) {
            self.sh.viol(&["C05"], "object_dropped_by_open_pool", format!("u{} was destroyed while the open pool was responsible for it", self.id));
        }
    }
}

pub type UPool = Pool<UTObj>;

#[derive(Clone, Copy, Debug, PartialEq, Eq)]
pub enum UAOp {
    TryGet,
    GetBlock,
    AddBlock,
    TryAdd,
    TryRemove,
    Return,
    Take,
    Close,
}

#[derive(Clone, Copy, Debug, PartialEq, Eq)]
pub enum UBOp {
    TryGetHold,
    TryGetReturn,
    TryAdd,
    TryRemove,
    ReturnMain,
    TakeMain,
    Close,
    Status,
    GetThenCancel,
    AddThenCancel,
}

#[derive(Clone, Copy, Debug, PartialEq, Eq)]
pub struct UState {
    pub max: usize,
    pub in_pool: usize,
    pub main_held: usize,
}

#[derive(Clone, Debug)]
pub struct UScenario {
    pub state: UState,
    pub a: UAOp,
    pub point: &'static str,
    pub hit: usize,
    pub b: UBOp,
}
impl UScenario {
    pub fn sig(&self) -> String {
        format!("max={};in={};held={};A={:?}@{}#{};B={:?}", self.state.max, self.state.in_pool, self.state.main_held, self.a, self.point, self.hit, self.b)
    }
}

pub fn ustates() -> Vec<UState> {
    vec![
        UState { max: 1, in_pool: 0, main_held: 0 },
        UState { max: 1, in_pool: 1, main_held: 0 },
        UState { max: 1, in_pool: 0, main_held: 1 },
        UState { max: 2, in_pool: 1, main_held: 0 },
        UState { max: 2, in_pool: 1, main_held: 1 },
        UState { max: 2, in_pool: 2, main_held: 0 },
        UState { max: 2, in_pool: 0, main_held: 2 },
    ]
}
pub fn ua_ops(s: &UState) -> Vec<UAOp> {
    let mut v = vec![UAOp::TryGet, UAOp::GetBlock, UAOp::AddBlock, UAOp::TryAdd, UAOp::TryRemove, UAOp::Close];
    if s.in_pool > 0 {
        v.push(UAOp::Return);
        v.push(UAOp::Take);
    }
    v
}
pub fn ub_ops(s: &UState) -> Vec<UBOp> {
    let mut v = vec![UBOp::TryGetHold, UBOp::TryGetReturn, UBOp::TryAdd, UBOp::TryRemove, UBOp::Close, UBOp::Status, UBOp::GetThenCancel, UBOp::AddThenCancel];
    if s.main_held > 0 {
        v.push(UBOp::ReturnMain);
        v.push(UBOp::TakeMain);
    }
    v
}

pub struct USweepOut {
    pub violations: Vec<Violation>,
    pub foreign: usize,
    pub reached: bool,
    pub trace_hash: u64,
    pub inconclusive: Option<String>,
    pub desc: Json,
    pub events: u64,
    pub end_state: u64,
}

enum UARes {
    Nothing,
    Obj(Object<UTObj>),
    Back(UTObj),
    Err(String),
    Cancelled,
    Panicked(String),
}

fn block_flag<F: std::future::Future>(fut: F, cancel: &AtomicBool, pending: &AtomicBool) -> Option<F::Output> {
    let waker = std::task::Waker::from(Arc::new(UWake(std::thread::current())));
    let mut cx = std::task::Context::from_waker(&waker);
    let mut fut = std::pin::pin!(fut);
    loop {
        if let std::task::Poll::Ready(v) = fut.as_mut().poll(&mut cx) {
            return Some(v);
        }
        pending.store(true, Ordering::SeqCst);
        if cancel.load(Ordering::SeqCst) {
            return None;
        }
        std::thread::park_timeout(Duration::from_millis(if cfg!(miri) { 0 } else { 2 }));
        if cfg!(miri) {
            std::thread::yield_now();
        }
    }
}
struct UWake(std::thread::Thread);
impl std::task::Wake for UWake {
    fn wake(self: Arc<Self>) {
        self.0.unpark();
    }
}

pub fn udiscover(prop: &'static str, state: UState, a: UAOp) -> Vec<(&'static str, usize)> {
    let sc = UScenario { state, a, point: "", hit: 0, b: UBOp::Status };
    let ctl = Ctl::new(CtlMode::Record, "", 0);
    let _ = run_inner(prop, &sc, &ctl, true);
    let mut counts: BTreeMap<&'static str, usize> = BTreeMap::new();
    let mut out = Vec::new();
    for (role, name) in ctl.trace.lock().unwrap().iter() {
        if *role == ROLE_A {
            let c = counts.entry(name).or_insert(0);
            out.push((*name, *c));
            *c += 1;
        }
    }
    out
}

pub fn run_usweep(prop: &'static str, sc: &UScenario) -> USweepOut {
    let ctl = Ctl::new(CtlMode::Sweep, sc.point, sc.hit);
    run_inner(prop, sc, &ctl, false)
}

fn run_inner(prop: &'static str, sc: &UScenario, ctl: &Arc<Ctl>, record_only: bool) -> USweepOut {
    let st = sc.state;
    let sh = USh::new(prop);
    let pool: UPool = Pool::new(st.max);
    let mut log = vec![format!("scenario {}", sc.sig())];
    let mut main_held: Vec<Object<UTObj>> = Vec::new();
    let mut a_obj: Option<Object<UTObj>> = None;
    for _ in 0..(st.in_pool + st.main_held).min(st.max) {
        let o = sh.new_obj();
        sh.care(o.id, true);
        pool.try_add(o).map_err(|_| ()).expect("setup add");
    }
    for _ in 0..st.main_held.min(st.max) {
        main_held.push(pool.try_get().expect("setup get"));
    }
    if matches!(sc.a, UAOp::Return | UAOp::Take) {
        a_obj = pool.try_get().ok();
    }
    let cancel = Arc::new(AtomicBool::new(false));
    let done = Arc::new(AtomicBool::new(false));
    let pending = Arc::new(AtomicBool::new(false));
    let a_handle = {
        let (pool, sh, ctl, cancel, done, pending) = (pool.clone(), sh.clone(), ctl.clone(), cancel.clone(), done.clone(), pending.clone());
        let a = sc.a;
        std::thread::spawn(move || {
            enter(&ctl, ROLE_A);
            let r = catch_unwind(AssertUnwindSafe(|| match a {
                UAOp::TryGet => match pool.try_get() {
                    Ok(o) => UARes::Obj(o),
                    Err(e) => UARes::Err(format!("{:?}", e)),
                },
                UAOp::GetBlock => match block_flag(pool.get(), &cancel, &pending) {
                    Some(Ok(o)) => UARes::Obj(o),
                    Some(Err(e)) => UARes::Err(format!("{:?}", e)),
                    None => UARes::Cancelled,
                },
                UAOp::AddBlock => {
                    let o = sh.new_obj();
                    let id = o.id;
                    sh.care(id, true);
                    // if the call is cancelled the object is dropped with the future: declare it ours again first
                    let fut = pool.add(o);
                    let waker = std::task::Waker::from(Arc::new(UWake(std::thread::current())));
                    let mut cx = std::task::Context::from_waker(&waker);
                    let mut fut = Box::pin(fut);
                    loop {
                        match fut.as_mut().poll(&mut cx) {
                            std::task::Poll::Ready(Ok(())) => break UARes::Nothing,
                            std::task::Poll::Ready(Err((o, e))) => {
                                sh.care(o.id, false);
                                if o.id != id {
                                    sh.viol(&["C05", "C12"], "add_handed_back_other", format!("add(u{}) handed back u{}", id, o.id));
                                }
                                if !matches!(e, PoolError::Closed) {
                                    sh.viol(&["C05", "C12"], "add_error_unjustified", format!("add(u{}) failed with {:?}", id, e));
                                }
                                break UARes::Back(o);
                            }
                            std::task::Poll::Pending => {
                                pending.store(true, Ordering::SeqCst);
                                if cancel.load(Ordering::SeqCst) {
                                    sh.care(id, false);
                                    drop(fut);
                                    break UARes::Cancelled;
                                }
                                std::thread::park_timeout(Duration::from_millis(2));
                            }
                        }
                    }
                }
                UAOp::TryAdd => {
                    let o = sh.new_obj();
                    let id = o.id;
                    sh.care(id, true);
                    match pool.try_add(o) {
                        Ok(()) => UARes::Nothing,
                        Err((o, e)) => {
                            sh.care(o.id, false);
                            if o.id != id {
                                sh.viol(&["C05", "C12"], "add_handed_back_other", format!("try_add(u{}) handed back u{}", id, o.id));
                            }
                            if matches!(e, PoolError::NoRuntimeSpecified) {
                                sh.viol(&["C12"], "add_error_unjustified", format!("try_add failed with {:?}", e));
                            }
                            UARes::Back(o)
                        }
                    }
                }
                UAOp::TryRemove => match pool.try_remove() {
                    Ok(o) => {
                        sh.care(o.id, false);
                        UARes::Back(o)
                    }
                    Err(e) => UARes::Err(format!("{:?}", e)),
                },
                UAOp::Return => {
                    drop(a_obj);
                    UARes::Nothing
                }
                UAOp::Take => match a_obj {
                    Some(o) => {
                        let id = o.id;
                        // declared before the call: from now on the harness owns it
                        sh.care(id, false);
                        UARes::Back(Object::take(o))
                    }
                    None => UARes::Nothing,
                },
                UAOp::Close => {
                    sh.close_started.store(true, Ordering::SeqCst);
                    pool.close();
                    UARes::Nothing
                }
            }));
            leave();
            done.store(true, Ordering::SeqCst);
            match r {
                Ok(v) => v,
                Err(p) => UARes::Panicked(panic_message(&*p)),
            }
        })
    };
    let mut reached = false;
    if !record_only {
        let t0 = std::time::Instant::now();
        loop {
            if ctl.latch.has_arrived() {
                reached = true;
                break;
            }
            if done.load(Ordering::SeqCst) || pending.load(Ordering::SeqCst) || t0.elapsed() > Duration::from_millis(1500) {
                break;
            }
            std::thread::yield_now();
        }
    }
    enter(ctl, ROLE_CTRL);
    let mut b_held: Vec<Object<UTObj>> = Vec::new();
    let mut externals: Vec<UTObj> = Vec::new();
    let mut b_res = String::new();
    if !record_only {
        let r = catch_unwind(AssertUnwindSafe(|| match sc.b {
            UBOp::TryGetHold | UBOp::TryGetReturn => match pool.try_get() {
                Ok(o) => {
                    if sc.b == UBOp::TryGetHold {
                        b_held.push(o);
                    }
                    "ok".to_string()
                }
                Err(e) => format!("{:?}", e),
            },
            UBOp::TryAdd => {
                let o = sh.new_obj();
                let id = o.id;
                sh.care(id, true);
                match pool.try_add(o) {
                    Ok(()) => "added".into(),
                    Err((o, e)) => {
                        sh.care(o.id, false);
                        if o.id != id {
                            sh.viol(&["C05", "C12"], "add_handed_back_other", format!("try_add(u{}) handed back u{}", id, o.id));
                        }
                        externals.push(o);
                        format!("{:?}", e)
                    }
                }
            }
            UBOp::TryRemove => match pool.try_remove() {
                Ok(o) => {
                    sh.care(o.id, false);
                    externals.push(o);
                    "removed".into()
                }
                Err(e) => format!("{:?}", e),
            },
            UBOp::ReturnMain => {
                drop(main_held.pop());
                "returned".into()
            }
            UBOp::TakeMain => {
                if let Some(o) = main_held.pop() {
                    sh.care(o.id, false);
                    externals.push(Object::take(o));
                }
                "taken".into()
            }
            UBOp::Close => {
                sh.close_started.store(true, Ordering::SeqCst);
                pool.close();
                // once close() has returned nothing waits in the pool any more. Judged only when the other
                // thread is itself inside close() (no get / add / return is half-way through, so every
                // live object the pool is responsible for must be in a caller's hands)
                if sc.a == UAOp::Close {
                    let alive = sh.objs.lock().unwrap().iter().filter(|i| i.in_pool_care && !i.destructed).count();
                    let in_hands = main_held.len() + b_held.len();
                    if alive != in_hands || !pool.is_closed() {
                        sh.viol(&["C12"], "close_returned_early", format!("close() returned but {} objects of the pool are still alive while callers hold {} (is_closed={})", alive, in_hands, pool.is_closed()));
                    }
                }
                "closed".into()
            }
            UBOp::Status => format!("{:?}", pool.status()),
            UBOp::GetThenCancel => match poll_once(pool.get()) {
                Some(Ok(o)) => {
                    b_held.push(o);
                    "ok".into()
                }
                Some(Err(e)) => format!("{:?}", e),
                None => "cancelled".into(),
            },
            UBOp::AddThenCancel => {
                let o = sh.new_obj();
                let id = o.id;
                sh.care(id, true);
                let mut fut = Box::pin(pool.add(o));
                let waker = std::task::Waker::from(Arc::new(UWake(std::thread::current())));
                let mut cx = std::task::Context::from_waker(&waker);
                match fut.as_mut().poll(&mut cx) {
                    std::task::Poll::Ready(Ok(())) => "added".into(),
                    std::task::Poll::Ready(Err((o, e))) => {
                        sh.care(o.id, false);
                        externals.push(o);
                        format!("{:?}", e)
                    }
                    std::task::Poll::Pending => {
                        sh.care(id, false);
                        drop(fut);
                        "cancelled".into()
                    }
                }
            }
        }));
        match r {
            Ok(s) => b_res = s,
            Err(p) => {
                b_res = format!("panic: {}", panic_message(&*p));
                sh.viol(&["C12", "*"], "operation_panicked", format!("operation {:?} panicked: {}", sc.b, panic_message(&*p)));
            }
        }
    }
    log.push(format!("B {:?} -> {}", sc.b, b_res));
    ctl.latch.release();
    main_held.clear();
    b_held.clear();
    let mut inconclusive = None;
    if !done.load(Ordering::SeqCst) {
        let t0 = std::time::Instant::now();
        loop {
            if done.load(Ordering::SeqCst) {
                break;
            }
            let s = pool.status();
            let closed = pool.is_closed();
            // can A's pending call be satisfied by what is there?
            let can = match sc.a {
                UAOp::GetBlock => closed || s.available > 0,
                UAOp::AddBlock => closed || s.size < s.max_size,
                _ => true,
            };
            if !can {
                cancel.store(true, Ordering::SeqCst);
            }
            if t0.elapsed() > Duration::from_secs(6) {
                if can && matches!(sc.a, UAOp::GetBlock | UAOp::AddBlock) {
                    sh.viol(&["C05", "C12"], "stranded_caller", format!("thread A {:?} still blocked after 6s at rest (closed={}, status={:?})", sc.a, closed, s));
                } else {
                    inconclusive = Some(format!("watchdog: A did not finish ({})", sc.sig()));
                }
                cancel.store(true, Ordering::SeqCst);
                let t1 = std::time::Instant::now();
                while !done.load(Ordering::SeqCst) && t1.elapsed() < Duration::from_secs(10) {
                    std::thread::sleep(Duration::from_millis(1));
                }
                break;
            }
            std::thread::sleep(Duration::from_micros(200));
        }
    }
    let a_res = a_handle.join().unwrap_or(UARes::Panicked("thread A died".into()));
    leave();
    if ctl.watchdog_fired.load(Ordering::SeqCst) > 0 {
        inconclusive = Some(format!("latch watchdog fired ({})", sc.sig()));
    }
    match a_res {
        UARes::Nothing | UARes::Cancelled => log.push("A -> done".into()),
        UARes::Obj(o) => {
            log.push(format!("A -> Ok(u{})", o.id));
            drop(o);
        }
        UARes::Back(o) => {
            log.push(format!("A -> got back u{}", o.id));
            externals.push(o);
        }
        UARes::Err(e) => {
            log.push(format!("A -> Err({})", e));
            if e != "Timeout" && e != "Closed" {
                sh.viol(&["C12"], "unexpected_error", format!("A {:?} failed with {}", sc.a, e));
            }
        }
        UARes::Panicked(m) => {
            log.push(format!("A -> PANIC {}", m));
            sh.viol(&["C12", "*"], "operation_panicked", format!("operation {:?} panicked: {}", sc.a, m));
        }
    }
    let end_state = match catch_unwind(AssertUnwindSafe(|| uend_state(&sh, &pool, &mut log))) {
        Ok(h) => h,
        Err(p) => {
            sh.viol(&["C12", "*"], "later_call_panicked", format!("a pool call at rest panicked (poisoned by an earlier panic?): {}", panic_message(&*p)));
            0
        }
    };
    sh.close_started.store(true, Ordering::SeqCst); // teardown: the pool may drop what it still holds
    drop(externals);
    drop(pool);
    let violations = std::mem::take(&mut *sh.violations.lock().unwrap());
    let points = ctl.points_hit.load(Ordering::SeqCst);
    USweepOut {
        foreign: sh.foreign.load(Ordering::SeqCst),
        reached,
        trace_hash: ctl.trace_hash(),
        inconclusive,
        desc: Json::obj()
            .with("engine", "uth_sweep")
            .with("profile_prop", prop)
            .with("scenario", sc.sig())
            .with("log", log.iter().map(|s| Json::from(s.as_str())).collect::<Vec<_>>())
            .with("trace", ctl.trace.lock().unwrap().iter().map(|(r, n)| Json::from(format!("{}:{}", if *r == ROLE_A { "A" } else { "B" }, n))).collect::<Vec<_>>()),
        events: points as u64 + sh.events.load(Ordering::SeqCst) as u64 + 2,
        end_state,
        violations,
    }
}

/// At rest: all threads joined, everything the harness held was returned.
pub fn uend_state(sh: &Arc<USh>, pool: &UPool, log: &mut Vec<String>) -> u64 {
    let st = pool.status();
    let closed = pool.is_closed();
    log.push(format!("at rest: {:?} closed={}", st, closed));
    let in_care = sh.objs.lock().unwrap().iter().filter(|i| i.in_pool_care && !i.destructed).count();
    let big = 1usize << 32;
    if st.size >= big || st.available >= big || st.waiting >= big {
        sh.viol(&["C05", "C12"], "status_wrapped", format!("status() wrapped: {:?}", st));
        return 0;
    }
    if closed {
        if in_care != 0 || st.size != 0 || st.available != 0 {
            sh.viol(&["C12"], "closed_pool_holds_objects", format!("closed pool at rest keeps {} objects alive, status {:?}", in_care, st));
        }
        match pool.try_get() {
            Err(PoolError::Closed) => {}
            Ok(_) => sh.viol(&["C12"], "object_after_close", "try_get on the closed pool returned an object".into()),
            Err(e) => sh.viol(&["C12"], "wrong_error_after_close", format!("try_get on the closed pool returned {:?}", e)),
        }
        let o = sh.new_obj();
        let id = o.id;
        match pool.try_add(o) {
            Err((o, PoolError::Closed)) if o.id == id => {}
            Err((_, e)) => sh.viol(&["C12"], "wrong_error_after_close", format!("try_add on the closed pool returned {:?}", e)),
            Ok(()) => sh.viol(&["C12"], "add_to_closed_pool", "try_add on the closed pool succeeded".into()),
        }
    } else {
        if st.size != in_care || st.available != in_care || st.waiting != 0 {
            sh.viol(&["C05"], "status_at_rest", format!("at rest {:?} but the pool is responsible for {} live objects and nobody waits", st, in_care));
        }
        if in_care > st.max_size {
            sh.viol(&["C05"], "over_max_size", format!("{} objects in the pool at rest, max_size {}", in_care, st.max_size));
        }
        // fill it up: exactly max_size - size further objects are accepted
        let mut accepted = 0;
        loop {
            let o = sh.new_obj();
            sh.care(o.id, true);
            match pool.try_add(o) {
                Ok(()) => accepted += 1,
                Err((o, e)) => {
                    sh.care(o.id, false);
                    if !matches!(e, PoolError::Timeout) {
                        sh.viol(&["C05"], "probe_add_error", format!("try_add at rest failed with {:?}", e));
                    }
                    break;
                }
            }
            if accepted > st.max_size + 2 {
                break;
            }
        }
        if in_care + accepted != st.max_size {
            sh.viol(&["C05"], "capacity_probe", format!("{} objects in the pool + {} more accepted != max_size {}", in_care, accepted, st.max_size));
        }
        // and every one of them can be taken out again
        let mut out = Vec::new();
        while let Ok(o) = pool.try_get() {
            out.push(o);
            if out.len() > st.max_size + 2 {
                break;
            }
        }
        if out.len() != in_care + accepted {
            sh.viol(&["C05"], "objects_lost", format!("{} objects should be in the pool but {} could be taken out", in_care + accepted, out.len()));
        }
        log.push(format!("probe: accepted {}, drained {}", accepted, out.len()));
        drop(out);
    }
    let mut h = vh_common::Hasher::default();
    for x in [st.max_size, st.size, st.available, closed as usize, in_care] {
        h.u64(x as u64);
    }
    h.0
}

// ------------------------------------------------------------------ chaos

pub struct UChaosOut {
    pub violations: Vec<Violation>,
    pub foreign: usize,
    pub trace_hash: u64,
    pub points: usize,
    pub desc: Json,
    pub events: u64,
    pub end_state: u64,
    pub nontrivial: bool,
}

pub fn run_uchaos(prop: &'static str, threads: usize, ops: usize, max_size: usize, with_close: bool, seed: u64, hammer: bool) -> UChaosOut {
    let sh = USh::new(prop);
    let pool: UPool = Pool::new(max_size);
    let ctl = Ctl::new(if hammer { CtlMode::Hammer } else { CtlMode::Chaos }, "", 0);
    let blocked = Arc::new(AtomicUsize::new(0));
    let mut handles = Vec::new();
    for t in 0..threads {
        let (pool, sh, ctl, blocked) = (pool.clone(), sh.clone(), ctl.clone(), blocked.clone());
        handles.push(std::thread::spawn(move || {
            enter(&ctl, 10 + t as u8);
            thread_rng_seed(seed.wrapping_mul(1000).wrapping_add(t as u64));
            let mut held: Vec<Object<UTObj>> = Vec::new();
            let mut ext: Vec<UTObj> = Vec::new();
            let mut log: Vec<String> = Vec::new();
            let parks = if cfg!(miri) || hammer { 3 } else { 30 };
            let park = Duration::from_micros(if cfg!(miri) || hammer { 0 } else { 300 });
            let r = catch_unwind(AssertUnwindSafe(|| {
                for _ in 0..ops {
                    match thread_rng(|r| r.below(100)) {
                        0..=19 => match block_on_cancel(pool.get(), parks, park) {
                            Some(Ok(o)) => held.push(o),
                            Some(Err(e)) => log.push(format!("get {:?}", e)),
                            None => {
                                let _ = blocked.fetch_add(1, Ordering::SeqCst);
                            }
                        },
                        20..=29 => {
                            if let Ok(o) = pool.try_get() {
                                held.push(o)
                            }
                        }
                        30..=44 => {
                            let o = ext.pop().unwrap_or_else(|| sh.new_obj());
                            let id = o.id;
                            sh.care(id, true);
                            match pool.try_add(o) {
                                Ok(()) => log.push(format!("try_add u{}", id)),
                                Err((o, _)) => {
                                    sh.care(o.id, false);
                                    if o.id != id {
                                        sh.viol(&["C05", "C12"], "add_handed_back_other", format!("try_add(u{}) handed back u{}", id, o.id));
                                    }
                                    ext.push(o);
                                }
                            }
                        }
                        45..=54 => {
                            let o = ext.pop().unwrap_or_else(|| sh.new_obj());
                            let id = o.id;
                            sh.care(id, true);
                            let mut fut = Box::pin(pool.add(o));
                            let waker = std::task::Waker::from(Arc::new(UWake(std::thread::current())));
                            let mut cx = std::task::Context::from_waker(&waker);
                            let mut n = 0;
                            loop {
                                match fut.as_mut().poll(&mut cx) {
                                    std::task::Poll::Ready(Ok(())) => break,
                                    std::task::Poll::Ready(Err((o, _))) => {
                                        sh.care(o.id, false);
                                        ext.push(o);
                                        break;
                                    }
                                    std::task::Poll::Pending => {
                                        n += 1;
                                        if n > parks {
                                            let _ = blocked.fetch_add(1, Ordering::SeqCst);
                                            sh.care(id, false);
                                            drop(fut);
                                            break;
                                        }
                                        std::thread::park_timeout(park);
                                    }
                                }
                            }
                        }
                        55..=64 => {
                            if let Ok(o) = pool.try_remove() {
                                sh.care(o.id, false);
                                ext.push(o);
                            }
                        }
                        65..=84 => {
                            drop(held.pop());
                        }
                        85..=92 => {
                            if let Some(o) = held.pop() {
                                sh.care(o.id, false);
                                ext.push(Object::take(o));
                            }
                        }
                        93 => {
                            if with_close && thread_rng(|r| r.chance(1, if hammer { 12 } else { 3 })) {
                                sh.close_started.store(true, Ordering::SeqCst);
                                pool.close();
                                log.push("close".into());
                            }
                        }
                        _ => {
                            let s = pool.status();
                            let big = 1usize << 32;
                            if s.size >= big || s.available >= big || s.waiting >= big {
                                sh.viol(&["C05", "C12"], "status_wrapped", format!("{:?}", s));
                            }
                        }
                    }
                }
            }));
            if let Err(p) = r {
                sh.viol(&["C12", "*"], "operation_panicked", format!("a pool call panicked: {}", panic_message(&*p)));
            }
            let dr = catch_unwind(AssertUnwindSafe(move || drop(held)));
            if dr.is_err() {
                sh.viol(&["C12", "*"], "operation_panicked", "returning objects panicked".into());
            }
            leave();
            (log, ext)
        }));
    }
    let mut logs = Vec::new();
    let mut exts = Vec::new();
    for (t, h) in handles.into_iter().enumerate() {
        match h.join() {
            Ok((l, e)) => {
                logs.push(Json::from(format!("thread {}: {}", t, l.join("; "))));
                exts.push(e);
            }
            Err(_) => sh.viol(&["*"], "thread_died", format!("chaos thread {} died", t)),
        }
    }
    let mut log = Vec::new();
    let end_state = match catch_unwind(AssertUnwindSafe(|| uend_state(&sh, &pool, &mut log))) {
        Ok(h) => h,
        Err(p) => {
            sh.viol(&["C12", "*"], "later_call_panicked", format!("a pool call at rest panicked (poisoned by an earlier panic?): {}", panic_message(&*p)));
            0
        }
    };
    sh.close_started.store(true, Ordering::SeqCst); // teardown
    drop(exts);
    drop(pool);
    let points = ctl.points_hit.load(Ordering::SeqCst);
    let violations = std::mem::take(&mut *sh.violations.lock().unwrap());
    UChaosOut {
        foreign: sh.foreign.load(Ordering::SeqCst),
        trace_hash: ctl.trace_hash(),
        points,
        desc: Json::obj()
            .with("engine", "uth_chaos")
            .with("profile_prop", prop)
            .with("seed", seed)
            .with("config", format!("threads={} ops={} max_size={} close={}", threads, ops, max_size, with_close))
            .with("threads", Json::Arr(logs))
            .with("end", log.iter().map(|s| Json::from(s.as_str())).collect::<Vec<_>>()),
        events: points as u64 + sh.events.load(Ordering::SeqCst) as u64,
        end_state,
        nontrivial: blocked.load(Ordering::SeqCst) > 0,
        violations,
    }
}
