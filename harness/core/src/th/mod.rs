//! Thread-level engines: real OS threads run pool operations through the
//! schedule points compiled into deadpool behind `--cfg deadpool_verif`.
//!
//! * sweep: thread A is parked at one named point, the controller runs one
//!   racing operation B to completion, A resumes; end-state oracles at rest.
//! * chaos: K threads with random scripts; the point handler injects random
//!   yields / spins / short sleeps.

pub mod managed;
pub mod race;
pub mod unmanaged;

use std::cell::{Cell, RefCell};
use std::future::Future;
use std::pin::pin;
use std::sync::atomic::{AtomicUsize, Ordering};
use std::sync::{Arc, Mutex, Once};
use std::task::{Context, Poll, Wake, Waker};
use std::thread::Thread;
use std::time::Duration;

use vh_common::gate::Latch;
use vh_common::Rng;

pub const ROLE_CTRL: u8 = 0;
pub const ROLE_A: u8 = 1;

thread_local! {
    static CUR: RefCell<Option<Arc<Ctl>>> = const { RefCell::new(None) };
    static ROLE: Cell<u8> = const { Cell::new(0) };
    static TRNG: RefCell<Rng> = RefCell::new(Rng::new(0));
    static NO_DELAY: Cell<bool> = const { Cell::new(false) };
    static IN_RETAIN: Cell<bool> = const { Cell::new(false) };
}

/// While alive, callbacks made on this thread are not schedule points: `retain()` calls the predicate and
/// `Manager::detach` with the pool's lock held, and parking inside a lock region shows nothing.
pub struct InRetain;
impl InRetain {
    pub fn enter() -> InRetain {
        IN_RETAIN.with(|c| c.set(true));
        InRetain
    }
    pub fn active() -> bool {
        IN_RETAIN.with(|c| c.get())
    }
}
impl Drop for InRetain {
    fn drop(&mut self) {
        IN_RETAIN.with(|c| c.set(false));
    }
}

#[derive(Clone, Copy, PartialEq, Eq, Debug)]
pub enum CtlMode {
    /// only record which points are hit
    Record,
    Sweep,
    Chaos,
    /// no delays, no trace: threads run at full speed (real contention)
    Hammer,
}

/// Schedule control of one scenario. Reached through a thread-local, so many
/// scenarios can run in parallel in one process.
pub struct Ctl {
    pub mode: CtlMode,
    pub target: &'static str,
    pub target_hit: usize,
    pub hits: AtomicUsize,
    pub latch: Latch,
    pub trace: Mutex<Vec<(u8, &'static str)>>,
    pub watchdog_fired: AtomicUsize,
    pub points_hit: AtomicUsize,
}

impl Ctl {
    pub fn new(mode: CtlMode, target: &'static str, target_hit: usize) -> Arc<Ctl> {
        Arc::new(Ctl {
            mode,
            target,
            target_hit,
            hits: AtomicUsize::new(0),
            latch: Latch::new(),
            trace: Mutex::new(Vec::new()),
            watchdog_fired: AtomicUsize::new(0),
            points_hit: AtomicUsize::new(0),
        })
    }
    fn on_point(&self, name: &'static str) {
        let role = ROLE.with(|r| r.get());
        let _ = self.points_hit.fetch_add(1, Ordering::Relaxed);
        match self.mode {
            CtlMode::Record => self.trace.lock().unwrap().push((role, name)),
            CtlMode::Sweep => {
                self.trace.lock().unwrap().push((role, name));
                if role == ROLE_A && name == self.target {
                    let n = self.hits.fetch_add(1, Ordering::SeqCst);
                    if n == self.target_hit && !self.latch.arrive_and_wait(Duration::from_secs(20)) {
                        let _ = self.watchdog_fired.fetch_add(1, Ordering::SeqCst);
                    }
                }
            }
            CtlMode::Chaos => {
                self.trace.lock().unwrap().push((role, name));
                chaos_delay();
            }
            CtlMode::Hammer => {}
        }
    }
    pub fn trace_hash(&self) -> u64 {
        let mut h = vh_common::Hasher::default();
        for (r, n) in self.trace.lock().unwrap().iter() {
            h.u64(*r as u64);
            h.str(n);
        }
        h.0
    }
}

/// Random perturbation used by chaos mode (also called from manager callbacks).
pub fn chaos_delay() {
    if NO_DELAY.with(|n| n.get()) {
        return;
    }
    let x = TRNG.with(|r| r.borrow_mut().below(100));
    match x {
        0..=49 => {}
        50..=74 => std::thread::yield_now(),
        75..=89 => {
            let n = TRNG.with(|r| r.borrow_mut().below(200));
            for _ in 0..n {
                std::hint::spin_loop();
            }
        }
        _ => {
            let us = TRNG.with(|r| r.borrow_mut().range(1, 50));
            if cfg!(miri) {
                std::thread::yield_now();
            } else {
                std::thread::sleep(Duration::from_micros(us));
            }
        }
    }
}

/// A schedule point inside harness code (e.g. inside a retain predicate).
pub fn pseudo_point(name: &'static str) {
    let ctl = CUR.with(|c| c.borrow().clone());
    if let Some(ctl) = ctl {
        ctl.on_point(name);
    }
}

pub fn thread_rng_seed(seed: u64) {
    TRNG.with(|r| *r.borrow_mut() = Rng::new(seed));
}
pub fn thread_rng<T>(f: impl FnOnce(&mut Rng) -> T) -> T {
    TRNG.with(|r| f(&mut r.borrow_mut()))
}

/// Makes the calling thread part of a scenario.
pub fn enter(ctl: &Arc<Ctl>, role: u8) {
    install_handler();
    CUR.with(|c| *c.borrow_mut() = Some(ctl.clone()));
    ROLE.with(|r| r.set(role));
    NO_DELAY.with(|n| n.set(ctl.mode == CtlMode::Hammer));
}
pub fn leave() {
    CUR.with(|c| *c.borrow_mut() = None);
    ROLE.with(|r| r.set(0));
    NO_DELAY.with(|n| n.set(false));
}

fn install_handler() {
    static ONCE: Once = Once::new();
    ONCE.call_once(|| {
        deadpool::verif::set_handler(Some(Arc::new(|name: &'static str, _addr: usize| {
            let ctl = CUR.with(|c| c.borrow().clone());
            if let Some(ctl) = ctl {
                ctl.on_point(name);
            }
        })));
    });
}

struct ThreadWaker(Thread);
impl Wake for ThreadWaker {
    fn wake(self: Arc<Self>) {
        self.0.unpark();
    }
    fn wake_by_ref(self: &Arc<Self>) {
        self.0.unpark();
    }
}

/// Minimal executor: polls `fut` on the calling thread, parking in between.
/// After `max_parks` parks without completion the future is dropped (which is
/// the legal operation "cancel a pending call") and `None` is returned.
pub fn block_on_cancel<F: Future>(fut: F, max_parks: usize, park: Duration) -> Option<F::Output> {
    let waker = Waker::from(Arc::new(ThreadWaker(std::thread::current())));
    let mut cx = Context::from_waker(&waker);
    let mut fut = pin!(fut);
    let mut parks = 0;
    loop {
        if let Poll::Ready(v) = fut.as_mut().poll(&mut cx) {
            return Some(v);
        }
        if parks >= max_parks {
            return None;
        }
        parks += 1;
        std::thread::park_timeout(park);
    }
}

/// Polls `fut` exactly once.
pub fn poll_once<F: Future>(fut: F) -> Option<F::Output> {
    block_on_cancel(fut, 0, Duration::ZERO)
}
