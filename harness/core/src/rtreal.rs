//! Real-clock timeout scenarios for every `Runtime` the crate can be configured with (C10).
//!
//! The task-level engine decides the timeout rules on tokio's paused clock, which never executes the code
//! of the runtime crate that arms a real timer, and it only ever uses `Runtime::Tokio1`. Here every rule
//! of C10 is run once per round on the real clock, for `Tokio1` and `AsyncStd1`, with per-call and with
//! configured timeouts, for the managed and the unmanaged pool. The tasks are always polled by a tokio
//! runtime (deadpool's runtime only supplies the timer), each pool call in a task of its own so that a
//! panic is an observed result.
//!
//! Verdicts never rest on "it took too long": a call that is late is inconclusive. They rest on
//! "too early" (a timer must not fire before its deadline), on the kind of result, and on the state of
//! the pool afterwards.

use std::sync::atomic::{AtomicU32, Ordering};
use std::sync::{Arc, Mutex};
use std::time::{Duration, Instant};

use deadpool::managed::{self, Metrics, PoolError, RecycleResult, TimeoutType, Timeouts};
use deadpool::{unmanaged, Runtime};
use tokio::sync::Semaphore;
use vh_common::Rng;

#[derive(Default)]
struct Sh {
    next: AtomicU32,
    create_gate: Mutex<Option<Arc<Semaphore>>>,
    recycle_gate: Mutex<Option<Arc<Semaphore>>>,
}

struct M {
    sh: Arc<Sh>,
}

impl managed::Manager for M {
    type Type = u32;
    type Error = ();
    async fn create(&self) -> Result<u32, ()> {
        let g = self.sh.create_gate.lock().unwrap().clone();
        if let Some(g) = g {
            let _ = g.acquire().await;
        }
        Ok(self.sh.next.fetch_add(1, Ordering::SeqCst))
    }
    async fn recycle(&self, _: &mut u32, _: &Metrics) -> RecycleResult<()> {
        let g = self.sh.recycle_gate.lock().unwrap().clone();
        if let Some(g) = g {
            let _ = g.acquire().await;
        }
        Ok(())
    }
}

type MPool = managed::Pool<M>;

pub struct Outcome {
    /// a call did not return at all
    pub hung: bool,
    pub sig: String,
    pub log: Vec<String>,
    /// (oracle, message)
    pub violation: Option<(&'static str, String)>,
    pub inconclusive: Option<String>,
}

#[derive(Clone, Copy, Debug, PartialEq, Eq)]
enum Mode {
    PerCall,
    Configured,
}

fn mk_pool(sh: &Arc<Sh>, max: usize, rt: Runtime, cfg: Option<Timeouts>) -> MPool {
    let mut b = managed::Pool::builder(M { sh: sh.clone() }).max_size(max).runtime(rt);
    if let Some(t) = cfg {
        b = b.wait_timeout(t.wait).create_timeout(t.create).recycle_timeout(t.recycle);
    }
    b.build().expect("build")
}

#[derive(Debug)]
enum Res {
    Obj(u32),
    Err(String),
    Panicked(String),
    /// no result within HANG (wall clock: believed only if it repeats, see `hung`)
    Hang,
}

const HANG: Duration = Duration::from_secs(10);

/// One get in a task of its own; returns the result, the object (kept alive by the caller) and the time it took.
async fn get(pool: &MPool, mode: Mode, t: Timeouts) -> (Res, Option<managed::Object<M>>, Duration) {
    let p = pool.clone();
    let t0 = Instant::now();
    let jh = tokio::spawn(async move {
        match mode {
            Mode::PerCall => p.timeout_get(&t).await,
            Mode::Configured => p.get().await,
        }
    });
    let ab = jh.abort_handle();
    let r = match tokio::time::timeout(HANG, jh).await {
        Ok(r) => r,
        Err(_) => {
            ab.abort();
            return (Res::Hang, None, t0.elapsed());
        }
    };
    let el = t0.elapsed();
    match r {
        Ok(Ok(o)) => (Res::Obj(*o), Some(o), el),
        Ok(Err(e)) => (Res::Err(format!("{:?}", e)), None, el),
        Err(e) => {
            let msg = if e.is_panic() { vh_common::panic_message(&*e.into_panic()) } else { "cancelled".into() };
            (Res::Panicked(msg), None, el)
        }
    }
}

const LATE: Duration = Duration::from_secs(20);
const NONE: Timeouts = Timeouts { wait: None, create: None, recycle: None };

fn managed_scenarios(rt: Runtime, mode: Mode, d: Duration, out: &mut Vec<Outcome>) {
    let trt = tokio::runtime::Builder::new_multi_thread().worker_threads(2).enable_time().build().expect("rt");
    let tag = format!("managed;runtime={:?};timeouts={:?};d={:?}", rt, mode, d);
    let mut push = |name: &str, log: Vec<String>, violation: Option<(&'static str, String)>, inconclusive: Option<String>| {
        let hung = log.iter().any(|l| l.contains("Hang"));
        // a hang is decided by the caller (re-run), not here
        let violation = if hung { None } else { violation };
        out.push(Outcome { hung, sig: format!("{};{}", tag, name), log, violation, inconclusive });
    };
    // the pool for a scenario: per-call timeouts go with an unconfigured pool and vice versa
    let pool_for = |sh: &Arc<Sh>, max: usize, t: Timeouts| match mode {
        Mode::PerCall => mk_pool(sh, max, rt, None),
        Mode::Configured => mk_pool(sh, max, rt, Some(t)),
    };
    trt.block_on(async {
        // ---- A: the wait timeout expires
        {
            let sh = Arc::new(Sh::default());
            let t = Timeouts { wait: Some(d), ..NONE };
            let pool = pool_for(&sh, 1, t);
            let (_, held, _) = get(&pool, Mode::PerCall, NONE).await;
            let (r, _o, el) = get(&pool, mode, t).await;
            let log = vec![format!("one object held, get with wait {:?} -> {:?} after {:?}", d, r, el)];
            let want = format!("{:?}", PoolError::<()>::Timeout(TimeoutType::Wait));
            let (v, inc) = match &r {
                Res::Err(e) if *e == want => {
                    if el < d {
                        (Some(("timeout_early", format!("Timeout(Wait) after {:?}, before the wait timeout {:?} had passed", el, d))), None)
                    } else if el > d + LATE {
                        (None, Some(format!("wait timeout {:?} reported after {:?}", d, el)))
                    } else {
                        (None, None)
                    }
                }
                other => (Some(("wait_timeout_result", format!("all slots in use, wait timeout {:?}: expected Timeout(Wait), got {:?}", d, other))), None),
            };
            drop(held);
            push("wait_expires", log, v, inc);
        }
        // ---- B: a slot becomes free before the deadline
        {
            let sh = Arc::new(Sh::default());
            let long = Duration::from_secs(30);
            let t = Timeouts { wait: Some(long), ..NONE };
            let pool = pool_for(&sh, 1, t);
            let (_, held, _) = get(&pool, Mode::PerCall, NONE).await;
            let giver = tokio::spawn(async move {
                tokio::time::sleep(d / 3).await;
                drop(held);
            });
            let (r, o, el) = get(&pool, mode, t).await;
            let _ = giver.await;
            let log = vec![format!("object returned after {:?}, get with wait {:?} -> {:?} after {:?}", d / 3, long, r, el)];
            let (v, inc) = match &r {
                Res::Obj(_) => (None, None),
                Res::Err(_) if el >= long => (None, Some(format!("the machine stalled for {:?}", el))),
                other => (Some(("wait_not_served", format!("a slot was freed long before the wait timeout {:?} but get returned {:?} after {:?}", long, other, el))), None),
            };
            drop(o);
            push("wait_served", log, v, inc);
        }
        // ---- C: the create timeout expires; the slot is released
        {
            let sh = Arc::new(Sh::default());
            let gate = Arc::new(Semaphore::new(0));
            *sh.create_gate.lock().unwrap() = Some(gate.clone());
            let t = Timeouts { create: Some(d), ..NONE };
            let pool = pool_for(&sh, 1, t);
            let (r, _o, el) = get(&pool, mode, t).await;
            let st = pool.status();
            let mut log = vec![format!("create hangs, get with create timeout {:?} -> {:?} after {:?}; status {:?}", d, r, el, st)];
            let want = format!("{:?}", PoolError::<()>::Timeout(TimeoutType::Create));
            let (mut v, mut inc) = match &r {
                Res::Err(e) if *e == want => {
                    if el < d {
                        (Some(("timeout_early", format!("Timeout(Create) after {:?}, before the create timeout {:?} had passed", el, d))), None)
                    } else if el > d + LATE {
                        (None, Some(format!("create timeout {:?} reported after {:?}", d, el)))
                    } else {
                        (None, None)
                    }
                }
                other => (Some(("create_timeout_result", format!("create never finishes, create timeout {:?}: expected Timeout(Create), got {:?}", d, other))), None),
            };
            if v.is_none() && st.size != 0 {
                v = Some(("slot_kept_after_create_timeout", format!("after Timeout(Create) the pool still counts {} objects ({:?})", st.size, st)));
            }
            // the slot must be usable again
            *sh.create_gate.lock().unwrap() = None;
            gate.add_permits(8);
            if v.is_none() {
                let (r2, o2, el2) = get(&pool, Mode::PerCall, Timeouts { wait: Some(Duration::from_secs(30)), ..NONE }).await;
                log.push(format!("create works again, next get -> {:?} after {:?}", r2, el2));
                match r2 {
                    Res::Obj(_) => {}
                    Res::Err(_) if el2 >= Duration::from_secs(30) => inc = Some("the machine stalled".into()),
                    other => v = Some(("slot_lost_after_create_timeout", format!("after Timeout(Create) the next get failed with {:?}", other))),
                }
                drop(o2);
            }
            push("create_expires", log, v, inc);
        }
        // ---- D: the recycle timeout expires: the object counts as rejected, a new one is created
        {
            let sh = Arc::new(Sh::default());
            let t = Timeouts { recycle: Some(d), ..NONE };
            let pool = pool_for(&sh, 1, t);
            let (first, o, _) = get(&pool, Mode::PerCall, NONE).await;
            drop(o);
            let gate = Arc::new(Semaphore::new(0));
            *sh.recycle_gate.lock().unwrap() = Some(gate.clone());
            let (r, o2, el) = get(&pool, mode, t).await;
            let st = pool.status();
            let log = vec![format!("idle {:?}, recycle hangs, get with recycle timeout {:?} -> {:?} after {:?}; status {:?}", first, d, r, el, st)];
            let (v, inc) = match (&first, &r) {
                (Res::Obj(a), Res::Obj(b)) if a != b => {
                    if el < d {
                        (Some(("timeout_early", format!("the hanging recycle was given up after {:?}, before the recycle timeout {:?} had passed", el, d))), None)
                    } else if st.size != 1 {
                        (Some(("size_after_recycle_timeout", format!("one object handed out but status is {:?}", st))), None)
                    } else {
                        (None, None)
                    }
                }
                (Res::Obj(a), Res::Obj(b)) if a == b => (Some(("recycle_timeout_returned", format!("object {} whose recycle never finished was handed out", b))), None),
                (_, other) => (Some(("recycle_timeout_result", format!("recycle never finishes, recycle timeout {:?}: expected a fresh object, got {:?}", d, other))), None),
            };
            gate.add_permits(8);
            drop(o2);
            push("recycle_expires", log, v, inc);
        }
        // ---- E: timeouts too large to be added to an Instant
        for huge in [Duration::MAX, Duration::from_secs(u64::MAX / 4)] {
            let sh = Arc::new(Sh::default());
            let t = Timeouts { wait: Some(huge), create: Some(huge), recycle: Some(huge) };
            let pool = pool_for(&sh, 1, t);
            let (r1, o1, _) = get(&pool, mode, t).await; // create path
            drop(o1);
            let (r2, o2, _) = get(&pool, mode, t).await; // recycle path
            // and one that has to wait
            let giver = tokio::spawn(async move {
                tokio::time::sleep(d / 3).await;
                drop(o2);
            });
            let (r3, o3, _) = get(&pool, mode, t).await;
            let _ = giver.await;
            let log = vec![format!("timeouts {:?}: create path -> {:?}, recycle path -> {:?}, after waiting -> {:?}", huge, r1, r2, r3)];
            let bad: Vec<String> = [&r1, &r2, &r3].iter().filter(|r| !matches!(r, Res::Obj(_))).map(|r| format!("{:?}", r)).collect();
            let v = if bad.is_empty() { None } else { Some(("huge_timeout", format!("timeouts of {:?} (nothing ever expires): got {}", huge, bad.join(", ")))) };
            drop(o3);
            push(if huge == Duration::MAX { "huge_max" } else { "huge_quarter" }, log, v, None);
        }
        // ---- F: zero wait never waits
        {
            let sh = Arc::new(Sh::default());
            let t = Timeouts { wait: Some(Duration::ZERO), ..NONE };
            let pool = pool_for(&sh, 1, t);
            let (r1, o1, _) = get(&pool, mode, t).await;
            let (r2, _x, el2) = get(&pool, mode, t).await;
            let log = vec![format!("zero wait: free slot -> {:?}; no free slot -> {:?} after {:?}", r1, r2, el2)];
            let want = format!("{:?}", PoolError::<()>::Timeout(TimeoutType::Wait));
            let v = match (&r1, &r2) {
                (Res::Obj(_), Res::Err(e)) if *e == want => None,
                _ => Some(("zero_wait_result", format!("zero wait timeout: free slot -> {:?}, none free -> {:?}", r1, r2))),
            };
            drop(o1);
            push("zero_wait", log, v, None);
        }
    });
    trt.shutdown_timeout(Duration::from_secs(2));
}

type UPool = unmanaged::Pool<u32>;

async fn uget(pool: &UPool, mode: Mode, t: Option<Duration>) -> (Res, Option<unmanaged::Object<u32>>, Duration) {
    let p = pool.clone();
    let t0 = Instant::now();
    let jh = tokio::spawn(async move {
        match mode {
            Mode::PerCall => p.timeout_get(t).await,
            Mode::Configured => p.get().await,
        }
    });
    let ab = jh.abort_handle();
    let r = match tokio::time::timeout(HANG, jh).await {
        Ok(r) => r,
        Err(_) => {
            ab.abort();
            return (Res::Hang, None, t0.elapsed());
        }
    };
    let el = t0.elapsed();
    match r {
        Ok(Ok(o)) => (Res::Obj(*o), Some(o), el),
        Ok(Err(e)) => (Res::Err(format!("{:?}", e)), None, el),
        Err(e) => {
            let msg = if e.is_panic() { vh_common::panic_message(&*e.into_panic()) } else { "cancelled".into() };
            (Res::Panicked(msg), None, el)
        }
    }
}

fn unmanaged_scenarios(rt: Runtime, mode: Mode, d: Duration, out: &mut Vec<Outcome>) {
    let trt = tokio::runtime::Builder::new_multi_thread().worker_threads(2).enable_time().build().expect("rt");
    let tag = format!("unmanaged;runtime={:?};timeouts={:?};d={:?}", rt, mode, d);
    let mut push = |name: &str, log: Vec<String>, violation: Option<(&'static str, String)>, inconclusive: Option<String>| {
        let hung = log.iter().any(|l| l.contains("Hang"));
        // a hang is decided by the caller (re-run), not here
        let violation = if hung { None } else { violation };
        out.push(Outcome { hung, sig: format!("{};{}", tag, name), log, violation, inconclusive });
    };
    let pool_for = |t: Option<Duration>| -> UPool {
        let cfg = unmanaged::PoolConfig { max_size: 2, timeout: if mode == Mode::Configured { t } else { None }, runtime: Some(rt) };
        unmanaged::Pool::from_config(&cfg)
    };
    trt.block_on(async {
        {
            let pool = pool_for(Some(d));
            let (r, _o, el) = uget(&pool, mode, Some(d)).await;
            let log = vec![format!("empty pool, get with timeout {:?} -> {:?} after {:?}", d, r, el)];
            let want = format!("{:?}", unmanaged::PoolError::Timeout);
            let (v, inc) = match &r {
                Res::Err(e) if *e == want => {
                    if el < d {
                        (Some(("timeout_early", format!("Timeout after {:?}, before the timeout {:?} had passed", el, d))), None)
                    } else if el > d + LATE {
                        (None, Some(format!("timeout {:?} reported after {:?}", d, el)))
                    } else {
                        (None, None)
                    }
                }
                other => (Some(("unmanaged_timeout_result", format!("empty pool, timeout {:?}: expected Timeout, got {:?}", d, other))), None),
            };
            push("expires", log, v, inc);
        }
        {
            let long = Duration::from_secs(30);
            let pool = pool_for(Some(long));
            let p2 = pool.clone();
            let giver = tokio::spawn(async move {
                tokio::time::sleep(d / 3).await;
                let _ = p2.try_add(7);
            });
            let (r, o, el) = uget(&pool, mode, Some(long)).await;
            let _ = giver.await;
            let log = vec![format!("object added after {:?}, get with timeout {:?} -> {:?} after {:?}", d / 3, long, r, el)];
            let (v, inc) = match &r {
                Res::Obj(7) => (None, None),
                Res::Err(_) if el >= long => (None, Some("the machine stalled".into())),
                other => (Some(("unmanaged_not_served", format!("an object was added long before the timeout {:?} but get returned {:?} after {:?}", long, other, el))), None),
            };
            drop(o);
            push("served", log, v, inc);
        }
        for huge in [Duration::MAX, Duration::from_secs(u64::MAX / 4)] {
            let pool = pool_for(Some(huge));
            let _ = pool.try_add(1);
            let (r1, o1, _) = uget(&pool, mode, Some(huge)).await;
            let giver = tokio::spawn(async move {
                tokio::time::sleep(d / 3).await;
                drop(o1);
            });
            let (r2, o2, _) = uget(&pool, mode, Some(huge)).await;
            let _ = giver.await;
            let log = vec![format!("timeout {:?}: object available -> {:?}, after waiting -> {:?}", huge, r1, r2)];
            let bad: Vec<String> = [&r1, &r2].iter().filter(|r| !matches!(r, Res::Obj(_))).map(|r| format!("{:?}", r)).collect();
            let v = if bad.is_empty() { None } else { Some(("huge_timeout", format!("timeout of {:?} (never expires): got {}", huge, bad.join(", ")))) };
            drop(o2);
            push(if huge == Duration::MAX { "huge_max" } else { "huge_quarter" }, log, v, None);
        }
        {
            // a caller waiting with a finite timeout on a pool that is (or gets) closed: `Closed`, and in any
            // case no `Timeout` before its time has passed
            let long = Duration::from_secs(30);
            let want_t = format!("{:?}", unmanaged::PoolError::Timeout);
            let want_c = format!("{:?}", unmanaged::PoolError::Closed);
            let pool = pool_for(Some(long));
            let p2 = pool.clone();
            let closer = tokio::spawn(async move {
                tokio::time::sleep(d / 3).await;
                p2.close();
            });
            let (r1, _o1, el1) = uget(&pool, mode, Some(long)).await;
            let _ = closer.await;
            let (r2, _o2, el2) = uget(&pool, mode, Some(long)).await;
            let log = vec![format!("timeout {:?}: pool closed after {:?} while waiting -> {:?} after {:?}; get on the closed pool -> {:?} after {:?}", long, d / 3, r1, el1, r2, el2)];
            let mut v = None;
            let mut inc = None;
            for (what, r, el) in [("closed while it waited", &r1, el1), ("called on the closed pool", &r2, el2)] {
                match r {
                    Res::Err(e) if *e == want_c => {}
                    Res::Err(e) if *e == want_t && el < long => v = Some(("timeout_early", format!("get with timeout {:?} {}: Timeout after {:?}, long before its time had passed (Closed is the documented answer)", long, what, el))),
                    Res::Err(e) if *e == want_t => inc = Some("the machine stalled".to_string()),
                    other => v = Some(("unmanaged_closed_result", format!("get with timeout {:?} {}: {:?}", long, what, other))),
                }
            }
            push("closed", log, v, inc);
        }
        {
            let pool = pool_for(Some(Duration::ZERO));
            let (r1, _x, _) = uget(&pool, mode, Some(Duration::ZERO)).await;
            let _ = pool.try_add(3);
            let (r2, o2, _) = uget(&pool, mode, Some(Duration::ZERO)).await;
            let log = vec![format!("zero timeout: empty pool -> {:?}; object available -> {:?}", r1, r2)];
            let want = format!("{:?}", unmanaged::PoolError::Timeout);
            let v = match (&r1, &r2) {
                (Res::Err(e), Res::Obj(3)) if *e == want => None,
                _ => Some(("zero_wait_result", format!("zero timeout: empty pool -> {:?}, object available -> {:?}", r1, r2))),
            };
            drop(o2);
            push("zero", log, v, None);
        }
    });
    trt.shutdown_timeout(Duration::from_secs(2));
}

/// One round: every scenario once for every runtime and both ways of setting timeouts.
pub fn round(seed: u64, idx: u64) -> Vec<Outcome> {
    let mut rng = Rng::derive(seed, 0x4757, idx);
    let mut out = Vec::new();
    for rt in [Runtime::Tokio1, Runtime::AsyncStd1] {
        for mode in [Mode::PerCall, Mode::Configured] {
            // sub-millisecond, a few milliseconds, tens of milliseconds
            let d = match rng.below(4) {
                0 => Duration::from_micros(rng.range(100, 999)),
                1 => Duration::from_millis(rng.range(1, 9)),
                _ => Duration::from_millis(rng.range(10, 60)),
            };
            managed_scenarios(rt, mode, d, &mut out);
            unmanaged_scenarios(rt, mode, d, &mut out);
        }
    }
    out
}
