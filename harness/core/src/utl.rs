//! Task-level engine for the unmanaged pool (C05, C12 and the unmanaged half
//! of C10): the director polls the real get()/add()/remove() futures by hand.

use std::collections::{BTreeMap, HashSet};
use std::future::Future;
use std::panic::{catch_unwind, AssertUnwindSafe};
use std::pin::Pin;
use std::sync::atomic::{AtomicBool, Ordering};
use std::sync::{Arc, Mutex};
use std::task::{Context, Poll, Waker};
use std::time::Duration;

use deadpool::unmanaged::{Object, Pool, PoolConfig, PoolError};
use deadpool::Runtime;
use vh_common::{panic_message, Hasher, Json, Rng, Violation};

use crate::tl::director::Flag;

#[derive(Clone, Copy, PartialEq, Eq, Debug)]
pub enum Loc {
    /// not yet given to the pool / handed back to the harness
    External,
    /// an add()/try_add() call that owns it is in progress
    Adding,
    InPool,
    Held,
    Returning,
    Gone,
}

pub struct UWorld {
    pub prop: &'static str,
    pub log: Vec<String>,
    pub keep_log: bool,
    pub log_hash: Hasher,
    pub locs: Vec<Loc>,
    pub max_size: usize,
    pub closed: bool,
    pub pool_dropped: bool,
    pub teardown: bool,
    pub op: String,
    pub violations: Vec<Violation>,
    pub foreign: usize,
    pub counters: BTreeMap<String, u64>,
    pub events: u64,
    pub was_full: bool,
    pub was_empty_with_getter: bool,
    pub blocked_seen: bool,
}

type UW = Arc<Mutex<UWorld>>;
fn lock(w: &UW) -> std::sync::MutexGuard<'_, UWorld> {
    w.lock().unwrap_or_else(|e| e.into_inner())
}

impl UWorld {
    fn ev(&mut self, s: String) {
        self.events += 1;
        self.log_hash.str(&s);
        if self.keep_log {
            self.log.push(s);
        }
    }
    fn bump(&mut self, k: &str) {
        *self.counters.entry(k.to_string()).or_insert(0) += 1;
    }
    fn viol(&mut self, props: &[&'static str], oracle: &'static str, msg: String) {
        if self.teardown {
            return;
        }
        self.ev(format!("!! ORACLE {} {:?}: {}", oracle, props, msg));
        if props.contains(&self.prop) || props.contains(&"*") {
            self.violations.push(Violation { prop: self.prop, oracle, msg });
        } else {
            self.foreign += 1;
        }
    }
    fn stop(&self) -> bool {
        !self.violations.is_empty() || self.foreign > 0
    }
    fn count(&self, l: Loc) -> usize {
        self.locs.iter().filter(|x| **x == l).count()
    }
    fn in_pool(&self) -> usize {
        self.count(Loc::InPool)
    }
    fn held(&self) -> usize {
        self.count(Loc::Held) + self.count(Loc::Returning)
    }
}

pub struct UObj {
    pub id: u32,
    w: UW,
}
impl Drop for UObj {
    fn drop(&mut self) {
        let mut w = lock(&self.w);
        let loc = w.locs[self.id as usize];
        let op = w.op.clone();
        w.ev(format!("  - u{} destructed (was {:?}, during {})", self.id, loc, op));
        match loc {
            Loc::External | Loc::Gone => {}
            Loc::InPool => {
                if !(w.closed || w.pool_dropped) {
                    w.viol(&["C05"], "object_dropped_by_open_pool", format!("u{} was destroyed while it was waiting in the open pool (during {})", self.id, op));
                }
            }
            Loc::Returning => {
                if !(w.closed || w.pool_dropped) {
                    w.viol(&["C05"], "object_dropped_on_return", format!("u{} was destroyed while being returned to the open pool", self.id));
                }
            }
            Loc::Adding => {
                w.viol(&["C05", "C12"], "object_dropped_by_add", format!("u{} was destroyed inside add()/try_add() instead of being stored or handed back", self.id));
            }
            Loc::Held => {
                w.viol(&["*"], "held_object_destroyed", format!("u{} destroyed while a caller holds it", self.id));
            }
        }
        w.locs[self.id as usize] = Loc::Gone;
    }
}

pub enum URes {
    Got(Object<UObj>),
    GetErr(PoolError),
    Added,
    AddErr(UObj, PoolError),
    Removed(UObj),
}

#[derive(Clone, Copy, Debug, PartialEq, Eq)]
pub enum UKind {
    /// get(): the pool's configured timeout
    Get,
    /// timeout_get(t)
    TimeoutGet(Option<Duration>),
    Remove,
    TimeoutRemove(Option<Duration>),
    Add(u32),
}

#[derive(Clone, Copy, Debug, PartialEq, Eq)]
pub enum UPhase {
    Blocked,
    Done,
}

pub struct UTask {
    fut: Option<Pin<Box<dyn Future<Output = URes>>>>,
    flag: Arc<Flag>,
    kind: UKind,
    phase: UPhase,
    started: tokio::time::Instant,
    eff_timeout: Option<Duration>,
}

pub struct UDirector {
    w: UW,
    pool: Option<Pool<UObj>>,
    cfg_timeout: Option<Duration>,
    runtime: bool,
    tasks: Vec<UTask>,
    held: Vec<Object<UObj>>,
    external: Vec<UObj>,
    sched: Hasher,
    states: HashSet<u64>,
}

#[derive(Clone, Debug)]
pub struct UProfile {
    pub prop: &'static str,
    pub actions: usize,
    pub w_close: u32,
    pub w_abandon: u32,
    pub w_advance: u32,
    pub timeouts: bool,
}

pub fn uprofile_for(prop: &str) -> UProfile {
    match prop {
        "C12" => UProfile { prop: "C12", actions: 100, w_close: 5, w_abandon: 6, w_advance: 4, timeouts: true },
        "C02" => UProfile { prop: "C02", actions: 120, w_close: 2, w_abandon: 10, w_advance: 4, timeouts: true },
        "C11" => UProfile { prop: "C11", actions: 100, w_close: 3, w_abandon: 8, w_advance: 4, timeouts: true },
        "C10" => UProfile { prop: "C10", actions: 80, w_close: 1, w_abandon: 3, w_advance: 20, timeouts: true },
        _ => UProfile { prop: "C05", actions: 140, w_close: 0, w_abandon: 8, w_advance: 4, timeouts: true },
    }
}

impl UDirector {
    fn world(&self) -> std::sync::MutexGuard<'_, UWorld> {
        lock(&self.w)
    }
    fn new_obj(&mut self) -> UObj {
        let mut w = self.world();
        w.locs.push(Loc::External);
        UObj { id: (w.locs.len() - 1) as u32, w: self.w.clone() }
    }
    fn begin(&mut self, what: String) {
        let mut w = self.world();
        w.op = what.clone();
        w.ev(what);
    }
    fn ready(&self) -> Vec<usize> {
        (0..self.tasks.len()).filter(|t| self.tasks[*t].fut.is_some() && self.tasks[*t].flag.0.load(Ordering::SeqCst)).collect()
    }
    fn live(&self) -> Vec<usize> {
        (0..self.tasks.len()).filter(|t| self.tasks[*t].fut.is_some()).collect()
    }
    fn blocked_getters(&self) -> usize {
        self.tasks.iter().filter(|t| t.fut.is_some() && !matches!(t.kind, UKind::Add(_))).count()
    }
    fn blocked_adders(&self) -> usize {
        self.tasks.iter().filter(|t| t.fut.is_some() && matches!(t.kind, UKind::Add(_))).count()
    }
    fn woken(&self, adders: bool) -> i64 {
        self.tasks
            .iter()
            .filter(|t| t.fut.is_some() && t.flag.0.load(Ordering::SeqCst) && matches!(t.kind, UKind::Add(_)) == adders)
            .count() as i64
    }

    fn start(&mut self, kind: UKind, obj: Option<UObj>) {
        let pool = self.pool.as_ref().unwrap().clone();
        let eff = match kind {
            UKind::Get | UKind::Remove => self.cfg_timeout,
            UKind::TimeoutGet(t) | UKind::TimeoutRemove(t) => t,
            UKind::Add(_) => None,
        };
        if let UKind::Add(id) = kind {
            self.world().locs[id as usize] = Loc::Adding;
        }
        let fut: Pin<Box<dyn Future<Output = URes>>> = Box::pin(async move {
            match kind {
                UKind::Get => match pool.get().await {
                    Ok(o) => URes::Got(o),
                    Err(e) => URes::GetErr(e),
                },
                UKind::TimeoutGet(t) => match pool.timeout_get(t).await {
                    Ok(o) => URes::Got(o),
                    Err(e) => URes::GetErr(e),
                },
                UKind::Remove => match pool.remove().await {
                    Ok(o) => URes::Removed(o),
                    Err(e) => URes::GetErr(e),
                },
                UKind::TimeoutRemove(t) => match pool.timeout_remove(t).await {
                    Ok(o) => URes::Removed(o),
                    Err(e) => URes::GetErr(e),
                },
                UKind::Add(_) => match pool.add(obj.unwrap()).await {
                    Ok(()) => URes::Added,
                    Err((o, e)) => URes::AddErr(o, e),
                },
            }
        });
        self.tasks.push(UTask {
            fut: Some(fut),
            flag: Arc::new(Flag(AtomicBool::new(false))),
            kind,
            phase: UPhase::Blocked,
            started: tokio::time::Instant::now(),
            eff_timeout: eff,
        });
        let t = self.tasks.len() - 1;
        self.sched.str("S");
        self.poll(t, format!("start t{} {:?}", t, kind));
    }

    fn poll(&mut self, t: usize, what: String) {
        if self.tasks[t].fut.is_none() {
            return;
        }
        self.sched.str("P");
        self.sched.u64(t as u64);
        let kind = self.tasks[t].kind;
        let is_add = matches!(kind, UKind::Add(_));
        let (in_pool, free_slots, closed) = {
            let w = self.world();
            (w.in_pool() as i64, w.max_size as i64 - (w.in_pool() + w.held()) as i64, w.closed)
        };
        let woken_same = self.woken(is_add) - if self.tasks[t].flag.0.load(Ordering::SeqCst) { 1 } else { 0 };
        self.begin(what);
        self.tasks[t].flag.0.store(false, Ordering::SeqCst);
        let waker = Waker::from(self.tasks[t].flag.clone());
        let mut cx = Context::from_waker(&waker);
        let mut fut = self.tasks[t].fut.take().unwrap();
        let r = catch_unwind(AssertUnwindSafe(|| fut.as_mut().poll(&mut cx)));
        let now = tokio::time::Instant::now();
        let eff = self.tasks[t].eff_timeout;
        let started = self.tasks[t].started;
        let runtime = self.runtime;
        match r {
            Ok(Poll::Pending) => {
                self.tasks[t].fut = Some(fut);
                let mut w = self.world();
                w.blocked_seen = true;
                w.ev(format!("  t{} -> Pending", t));
                if !is_add && eff == Some(Duration::ZERO) {
                    w.viol(&["C10"], "zero_timeout_pending", format!("t{} {:?} uses a zero timeout but suspended", t, kind));
                }
                if !is_add && w.in_pool() == 0 {
                    w.was_empty_with_getter = true;
                }
            }
            Ok(Poll::Ready(res)) => {
                drop(fut);
                self.tasks[t].phase = UPhase::Done;
                let mut w = self.world();
                match res {
                    URes::Got(o) => {
                        let id = o.id;
                        w.ev(format!("  t{} -> Ok(u{})", t, id));
                        if w.locs[id as usize] != Loc::InPool {
                            let l = w.locs[id as usize];
                            w.viol(&["C05"], "got_object_not_in_pool", format!("get returned u{} which is {:?}", id, l));
                        }
                        if closed {
                            w.viol(&["C12"], "object_after_close", format!("t{} obtained u{} after close()", t, id));
                        }
                        w.locs[id as usize] = Loc::Held;
                        w.bump("gets_ok");
                        drop(w);
                        self.held.push(o);
                    }
                    URes::Removed(o) => {
                        let id = o.id;
                        w.ev(format!("  t{} -> removed u{}", t, id));
                        if w.locs[id as usize] != Loc::InPool {
                            let l = w.locs[id as usize];
                            w.viol(&["C05"], "removed_object_not_in_pool", format!("remove returned u{} which is {:?}", id, l));
                        }
                        if closed {
                            w.viol(&["C12"], "object_after_close", format!("t{} removed u{} after close()", t, id));
                        }
                        w.locs[id as usize] = Loc::External;
                        w.bump("removes_ok");
                        drop(w);
                        self.external.push(o);
                    }
                    URes::GetErr(e) => {
                        w.ev(format!("  t{} -> Err({:?})", t, e));
                        match e {
                            PoolError::Timeout => {
                                if closed {
                                    w.viol(&["C12"], "timeout_instead_of_closed", format!("t{} {:?} on a closed pool returned Timeout", t, kind));
                                } else if eff == Some(Duration::ZERO) {
                                    if in_pool - woken_same > 0 {
                                        w.viol(&["C05", "C10", "C02"], "nonblocking_get_failed", format!("t{} zero-timeout get failed although {} objects were available", t, in_pool));
                                    }
                                } else {
                                    match eff {
                                        Some(d) if runtime && started.checked_add(d).map(|dl| now >= dl).unwrap_or(false) => {}
                                        _ => w.viol(&["C10"], "timeout_early", format!("t{} {:?} returned Timeout before its deadline {:?}", t, kind, eff)),
                                    }
                                }
                                w.bump("gets_timeout");
                            }
                            PoolError::Closed => {
                                if !closed {
                                    w.viol(&["C12", "C05", "C02"], "closed_on_open_pool", format!("t{} got Closed from an open pool", t));
                                }
                                w.bump("gets_closed");
                            }
                            PoolError::NoRuntimeSpecified => {
                                let uses = eff.map(|d| !d.is_zero()).unwrap_or(false);
                                if runtime || !uses {
                                    w.viol(&["C10", "C12"], "no_runtime_unjustified", format!("t{} {:?} got NoRuntimeSpecified (runtime={}, timeout {:?})", t, kind, runtime, eff));
                                }
                                w.bump("gets_no_runtime");
                            }
                        }
                    }
                    URes::Added => {
                        let UKind::Add(id) = kind else { unreachable!() };
                        w.ev(format!("  t{} -> added u{}", t, id));
                        if closed {
                            w.viol(&["C12"], "add_to_closed_pool", format!("add(u{}) succeeded on a closed pool", id));
                        }
                        if w.locs[id as usize] == Loc::Adding {
                            w.locs[id as usize] = Loc::InPool;
                        }
                        w.bump("adds_ok");
                    }
                    URes::AddErr(o, e) => {
                        let UKind::Add(id) = kind else { unreachable!() };
                        w.ev(format!("  t{} -> add refused {:?}, handed back u{}", t, e, o.id));
                        if o.id != id {
                            w.viol(&["C05", "C12"], "add_handed_back_other", format!("add(u{}) handed back u{}", id, o.id));
                        }
                        if !matches!(e, PoolError::Closed) || !closed {
                            w.viol(&["C05", "C12"], "add_error_unjustified", format!("add(u{}) failed with {:?} (closed={})", id, e, closed));
                        }
                        w.locs[o.id as usize] = Loc::External;
                        w.bump("adds_refused");
                        drop(w);
                        self.external.push(o);
                    }
                }
                let _ = free_slots;
            }
            Err(p) => {
                let msg = panic_message(&*p);
                let _ = catch_unwind(AssertUnwindSafe(move || drop(fut)));
                self.tasks[t].phase = UPhase::Done;
                let mut w = self.world();
                w.viol(&["C12", "*"], "call_panicked", format!("t{} {:?} panicked: {}", t, kind, msg));
            }
        }
        self.after();
    }

    fn abandon(&mut self, t: usize) {
        let Some(fut) = self.tasks[t].fut.take() else { return };
        self.sched.str("A");
        let kind = self.tasks[t].kind;
        self.begin(format!("abandon t{} {:?}", t, kind));
        if let UKind::Add(id) = kind {
            // the object travels with the future: dropping the future drops it
            self.world().locs[id as usize] = Loc::External;
        }
        let r = catch_unwind(AssertUnwindSafe(move || drop(fut)));
        if r.is_err() {
            self.world().viol(&["C12", "C05"], "abandon_panicked", format!("dropping t{} panicked", t));
        }
        self.tasks[t].phase = UPhase::Done;
        self.world().bump("abandons");
        self.after();
    }

    fn try_get(&mut self, remove: bool) {
        let pool = self.pool.as_ref().unwrap().clone();
        self.sched.str("g");
        let (in_pool, closed) = {
            let w = self.world();
            (w.in_pool() as i64, w.closed)
        };
        let woken = self.woken(false);
        self.begin(format!("{}", if remove { "try_remove" } else { "try_get" }));
        let r = catch_unwind(AssertUnwindSafe(|| pool.try_get()));
        {
        let wa = self.w.clone();
        let mut w = lock(&wa);
        match r {
            Err(p) => w.viol(&["C12", "*"], "call_panicked", format!("try_get panicked: {}", panic_message(&*p))),
            Ok(Ok(o)) => {
                let id = o.id;
                w.ev(format!("  -> Ok(u{})", id));
                if w.locs[id as usize] != Loc::InPool {
                    let l = w.locs[id as usize];
                    w.viol(&["C05"], "got_object_not_in_pool", format!("try_get returned u{} which is {:?}", id, l));
                }
                if closed {
                    w.viol(&["C12"], "object_after_close", format!("try_get obtained u{} after close()", id));
                }
                if remove {
                    w.locs[id as usize] = Loc::External;
                    drop(w);
                    let inner = Object::take(o);
                    self.external.push(inner);
                } else {
                    w.locs[id as usize] = Loc::Held;
                    drop(w);
                    self.held.push(o);
                }
            }
            Ok(Err(e)) => {
                w.ev(format!("  -> Err({:?})", e));
                match e {
                    PoolError::Timeout => {
                        if closed {
                            w.viol(&["C12"], "timeout_instead_of_closed", "try_get on a closed pool returned Timeout".into());
                        } else if in_pool - woken > 0 {
                            w.viol(&["C05"], "nonblocking_get_failed", format!("try_get failed although {} objects were available ({} woken getters)", in_pool, woken));
                        }
                    }
                    PoolError::Closed => {
                        if !closed {
                            w.viol(&["C12", "C05", "C02"], "closed_on_open_pool", "try_get got Closed from an open pool".into());
                        }
                    }
                    PoolError::NoRuntimeSpecified => w.viol(&["C12", "C10"], "no_runtime_unjustified", "try_get returned NoRuntimeSpecified".into()),
                }
            }
        }
        }
        self.after();
    }

    fn try_add(&mut self, obj: UObj) {
        let pool = self.pool.as_ref().unwrap().clone();
        self.sched.str("a");
        let id = obj.id;
        let (free, closed) = {
            let w = self.world();
            (w.max_size as i64 - (w.in_pool() + w.held()) as i64, w.closed)
        };
        let woken = self.woken(true);
        self.begin(format!("try_add u{}", id));
        self.world().locs[id as usize] = Loc::Adding;
        let r = catch_unwind(AssertUnwindSafe(|| pool.try_add(obj)));
        {
        let wa = self.w.clone();
        let mut w = lock(&wa);
        match r {
            Err(p) => w.viol(&["C12", "*"], "call_panicked", format!("try_add panicked: {}", panic_message(&*p))),
            Ok(Ok(())) => {
                w.ev("  -> Ok".into());
                if closed {
                    w.viol(&["C12"], "add_to_closed_pool", format!("try_add(u{}) succeeded on a closed pool", id));
                } else if free <= 0 {
                    let m = w.max_size;
                    w.viol(&["C05"], "add_over_max_size", format!("try_add(u{}) succeeded although the pool was full (max_size {})", id, m));
                }
                if w.locs[id as usize] == Loc::Adding {
                    w.locs[id as usize] = Loc::InPool;
                }
                w.bump("try_adds_ok");
            }
            Ok(Err((o, e))) => {
                w.ev(format!("  -> refused {:?}", e));
                if o.id != id {
                    w.viol(&["C05", "C12"], "add_handed_back_other", format!("try_add(u{}) handed back u{}", id, o.id));
                }
                match e {
                    PoolError::Closed => {
                        if !closed {
                            w.viol(&["C12", "C05", "C02"], "closed_on_open_pool", "try_add got Closed from an open pool".into());
                        }
                    }
                    PoolError::Timeout => {
                        if closed {
                            w.viol(&["C12"], "timeout_instead_of_closed", "try_add on a closed pool returned Timeout".into());
                        } else if free - woken > 0 {
                            w.viol(&["C05"], "try_add_refused_with_room", format!("try_add(u{}) reported Timeout although {} slots were free ({} woken adders)", id, free, woken));
                        } else {
                            w.was_full = true;
                        }
                    }
                    PoolError::NoRuntimeSpecified => w.viol(&["C12"], "no_runtime_unjustified", "try_add returned NoRuntimeSpecified".into()),
                }
                w.locs[o.id as usize] = Loc::External;
                w.bump("try_adds_refused");
                drop(w);
                self.external.push(o);
            }
        }
        }
        self.after();
    }

    fn return_obj(&mut self, i: usize) {
        let o = self.held.swap_remove(i);
        let id = o.id;
        self.sched.str("R");
        self.begin(format!("return u{}", id));
        self.world().locs[id as usize] = Loc::Returning;
        // every fourth return happens while the holder is unwinding from a panic of its own
        let panicking = (id as usize + self.held.len()) % 4 == 3;
        let r = if panicking {
            self.world().ev("  (the holder panics: the object is dropped by the unwinding)".into());
            let r = catch_unwind(AssertUnwindSafe(move || {
                let _o = o;
                std::panic::panic_any(vh_common::InjectedPanic(5));
            }));
            match r {
                Err(p) if p.downcast_ref::<vh_common::InjectedPanic>().is_some() => Ok(()),
                Err(p) => Err(p),
                Ok(()) => Ok(()),
            }
        } else {
            catch_unwind(AssertUnwindSafe(move || drop(o)))
        };
        let mut w = self.world();
        if r.is_err() {
            w.viol(&["C12", "*"], "return_panicked", format!("returning u{} panicked", id));
        }
        if w.locs[id as usize] == Loc::Returning {
            if w.closed || w.pool_dropped {
                w.viol(&["C12"], "kept_after_close", format!("u{} returned to a closed pool was kept", id));
            }
            w.locs[id as usize] = Loc::InPool;
        }
        drop(w);
        self.after();
    }

    fn take_obj(&mut self, i: usize) {
        let o = self.held.swap_remove(i);
        let id = o.id;
        self.sched.str("K");
        self.begin(format!("take u{}", id));
        self.world().locs[id as usize] = Loc::External;
        let r = catch_unwind(AssertUnwindSafe(move || Object::take(o)));
        match r {
            Err(_) => self.world().viol(&["C12", "*"], "take_panicked", format!("take(u{}) panicked", id)),
            Ok(inner) => {
                if inner.id != id {
                    self.world().viol(&["C05"], "take_wrong_value", format!("take(u{}) returned u{}", id, inner.id));
                }
                self.external.push(inner);
            }
        }
        self.after();
    }

    fn close(&mut self) {
        let pool = self.pool.as_ref().unwrap().clone();
        self.sched.str("C");
        self.begin("close".into());
        self.world().closed = true;
        let r = catch_unwind(AssertUnwindSafe(|| pool.close()));
        let is_closed = pool.is_closed();
        let mut w = self.world();
        if r.is_err() {
            w.viol(&["C12", "*"], "close_panicked", "close() panicked".into());
        }
        if !is_closed {
            w.viol(&["C12"], "is_closed_false", "is_closed() false after close()".into());
        }
        if w.in_pool() > 0 {
            let n = w.in_pool();
            w.viol(&["C12"], "closed_pool_holds_objects", format!("{} objects still wait in the pool after close()", n));
        }
        w.bump("closes");
        drop(w);
        self.after();
    }

    /// checks after every action
    fn after(&mut self) {
        let Some(pool) = self.pool.as_ref() else { return };
        let st = pool.status();
        let quiescent = self.ready().is_empty();
        let getters = self.blocked_getters();
        let adders = self.blocked_adders();
        let mut w = self.world();
        w.op = "idle".into();
        let in_pool = w.in_pool();
        let held = w.held();
        if in_pool + held > w.max_size && !w.closed {
            let m = w.max_size;
            w.viol(&["C05"], "over_max_size", format!("{} objects in the pool + {} held > max_size {}", in_pool, held, m));
        }
        if in_pool + held == w.max_size && w.max_size > 0 {
            w.was_full = true;
        }
        let mut h = Hasher::default();
        for x in [in_pool, held, getters, adders, w.closed as usize, st.size, st.available, st.waiting] {
            h.u64(x as u64);
        }
        drop(w);
        let _ = self.states.insert(h.0);
        let mut w = self.world();
        let big = 1usize << 32;
        if st.size >= big || st.available >= big || st.waiting >= big {
            w.viol(&["C05", "C12", "C11"], "status_wrapped", format!("status() reports a wrapped counter: {:?}", st));
        } else if quiescent && !w.stop() {
            // at rest: no runnable task; blocked tasks are genuinely blocked
            if st.size != in_pool + held || st.available != in_pool || st.waiting != getters || st.max_size != w.max_size {
                let props: &[&'static str] = if w.closed { &["C12", "C11"] } else { &["C05", "C11"] };
                let m = w.max_size;
                w.viol(
                    props,
                    "status_at_rest",
                    format!("at rest status() = {:?}; ground truth max_size={} size={} (in pool {} + held {}) available={} waiting getters={}", st, m, in_pool + held, in_pool, held, in_pool, getters),
                );
            }
            w.bump("status_exact_checks");
            // blocked callers must be justified
            if getters > 0 {
                if w.closed {
                    w.viol(&["C12", "C02"], "blocked_after_close", format!("{} getters still blocked although the pool is closed", getters));
                } else if in_pool > 0 {
                    w.viol(&["C05", "C02"], "stranded_getter", format!("{} getters blocked while {} objects wait in the pool", getters, in_pool));
                }
            }
            if adders > 0 {
                if w.closed {
                    w.viol(&["C12"], "blocked_after_close", format!("{} add() calls still blocked although the pool is closed", adders));
                } else if in_pool + held < w.max_size {
                    let m = w.max_size;
                    w.viol(&["C05"], "stranded_adder", format!("{} add() calls blocked while only {} of {} slots are used", adders, in_pool + held, m));
                }
            }
            if getters > 0 || adders > 0 {
                w.bump("quiescent_points_with_blocked_callers");
            }
        }
    }
}

pub struct UOut {
    pub violations: Vec<Violation>,
    pub foreign: usize,
    pub log: Vec<String>,
    pub hash: u64,
    pub sched: u64,
    pub states: HashSet<u64>,
    pub counters: BTreeMap<String, u64>,
    pub nontrivial: bool,
    pub events: u64,
    pub cfg: String,
}

pub fn run_history(rt: &tokio::runtime::Runtime, p: &UProfile, seed: u64, idx: u64, keep_log: bool) -> UOut {
    let mut rng = Rng::derive(seed, vh_common::fnv1a(p.prop.as_bytes()) ^ 0x55, idx);
    let max_size = rng.usize_below(5);
    let runtime = p.timeouts && rng.chance(1, 2);
    let cfg_timeout = if runtime && rng.chance(1, 2) {
        if rng.chance(1, 12) {
            Some(Duration::MAX)
        } else {
            Some(Duration::from_millis(rng.range(0, 30) * 10))
        }
    } else if rng.chance(1, 8) {
        Some(Duration::ZERO)
    } else {
        None
    };
    let ctor = rng.below(3);
    let cfg = format!("max_size={} ctor={} runtime={} timeout={:?}", max_size, ["new", "from_config", "from_vec"][ctor as usize], runtime, cfg_timeout);
    let w: UW = Arc::new(Mutex::new(UWorld {
        prop: p.prop,
        log: Vec::new(),
        keep_log,
        log_hash: Default::default(),
        locs: Vec::new(),
        max_size,
        closed: false,
        pool_dropped: false,
        teardown: false,
        op: "build".into(),
        violations: Vec::new(),
        foreign: 0,
        counters: BTreeMap::new(),
        events: 0,
        was_full: false,
        was_empty_with_getter: false,
        blocked_seen: false,
    }));
    lock(&w).ev(format!("unmanaged history {} seed {}: {}", idx, seed, cfg));
    let mut out_sched = 0;
    let mut out_states = HashSet::new();
    rt.block_on(async {
        let mut d = UDirector {
            w: w.clone(),
            pool: None,
            cfg_timeout,
            runtime,
            tasks: Vec::new(),
            held: Vec::new(),
            external: Vec::new(),
            sched: Default::default(),
            states: Default::default(),
        };
        let pool = match ctor {
            0 if cfg_timeout.is_none() && !runtime => Pool::new(max_size),
            2 if cfg_timeout.is_none() && !runtime => {
                // From<IntoIterator>: the pool is as large as the number of objects it is given, whatever
                // the iterator is backed by (a Vec with spare capacity, a partly consumed into_iter(), ...)
                let how = rng.below(4);
                let mut v: Vec<UObj> = Vec::with_capacity(max_size + if how == 1 { 1 + rng.usize_below(9) } else { 0 });
                for _ in 0..max_size {
                    v.push(d.new_obj());
                }
                for o in &v {
                    lock(&w).locs[o.id as usize] = Loc::InPool;
                }
                lock(&w).ev(format!("  from-iterator variant {}", how));
                match how {
                    2 => {
                        // a partly consumed vec::IntoIter (collect() reuses its buffer)
                        let mut all: Vec<UObj> = Vec::with_capacity(max_size + 3);
                        for _ in 0..3 {
                            all.push(d.new_obj());
                        }
                        all.extend(v);
                        let mut it = all.into_iter();
                        for _ in 0..3 {
                            d.external.push(it.next().unwrap());
                        }
                        Pool::from(it)
                    }
                    3 => Pool::from(v.into_iter().collect::<std::collections::VecDeque<_>>()),
                    _ => Pool::from(v),
                }
            }
            _ => {
                let mut c = PoolConfig::new(max_size);
                c.timeout = cfg_timeout;
                c.runtime = if runtime { Some(Runtime::Tokio1) } else { None };
                Pool::from_config(&c)
            }
        };
        d.pool = Some(pool);
        d.after();
        let n_actions = rng.range((p.actions / 4) as u64, p.actions as u64);
        for _ in 0..n_actions {
            if d.world().stop() {
                break;
            }
            let ready = d.ready();
            let live = d.live();
            let weights = [
                if live.len() < 8 { 18 } else { 0 }, // start get-like
                if live.len() < 8 { 14 } else { 0 }, // start add
                10,                                  // try_get / try_remove
                12,                                  // try_add
                if !ready.is_empty() { 35 } else { 0 },
                if !live.is_empty() { p.w_abandon } else { 0 },
                p.w_advance,
                if !d.held.is_empty() { 22 } else { 0 },
                if !d.held.is_empty() { 8 } else { 0 },
                p.w_close,
                if !live.is_empty() { 1 } else { 0 },
            ];
            // mostly ordinary durations; now and then one that cannot be added to an Instant
            let dur = |rng: &mut Rng| match rng.below(16) {
                0 => Duration::MAX,
                1 => Duration::from_secs(u64::MAX / 4),
                2 => Duration::from_nanos(1),
                _ => Duration::from_millis(rng.range(1, 30) * 10),
            };
            match rng.weighted(&weights) {
                0 => {
                    let t = match rng.below(4) {
                        0 => Some(Duration::ZERO),
                        1 => Some(dur(&mut rng)),
                        _ => None,
                    };
                    let kind = match rng.below(5) {
                        0 => UKind::Get,
                        1 => UKind::Remove,
                        2 => UKind::TimeoutRemove(t),
                        _ => UKind::TimeoutGet(t),
                    };
                    d.start(kind, None);
                }
                1 | 3 => {
                    let which = rng.below(3);
                    let o = if !d.external.is_empty() && which > 0 {
                        let i = rng.usize_below(d.external.len());
                        d.external.swap_remove(i)
                    } else {
                        d.new_obj()
                    };
                    if weights[1] > 0 && rng.chance(1, 2) {
                        let id = o.id;
                        d.start(UKind::Add(id), Some(o));
                    } else {
                        d.try_add(o);
                    }
                }
                2 => d.try_get(rng.chance(1, 3)),
                4 => {
                    let t = *rng.pick(&ready);
                    d.poll(t, format!("poll t{}", t));
                }
                5 => {
                    let t = *rng.pick(&live);
                    d.abandon(t);
                }
                6 => {
                    let ms = *rng.pick(&[1u64, 10, 50, 100, 200, 400]);
                    d.begin(format!("advance {}ms", ms));
                    tokio::time::advance(Duration::from_millis(ms)).await;
                    d.after();
                }
                7 => {
                    let i = rng.usize_below(d.held.len());
                    d.return_obj(i);
                }
                8 => {
                    let i = rng.usize_below(d.held.len());
                    d.take_obj(i);
                }
                9 => d.close(),
                _ => {
                    let t = *rng.pick(&live);
                    d.poll(t, format!("spurious poll t{}", t));
                }
            }
        }
        // settle
        let mut guard = 0;
        while !d.world().stop() && guard < 1000 {
            guard += 1;
            let ready = d.ready();
            if !ready.is_empty() {
                let t = *rng.pick(&ready);
                d.poll(t, format!("poll t{}", t));
                continue;
            }
            if !d.held.is_empty() {
                let i = rng.usize_below(d.held.len());
                if rng.chance(1, 4) {
                    d.take_obj(i);
                } else {
                    d.return_obj(i);
                }
                continue;
            }
            let live = d.live();
            if live.is_empty() {
                break;
            }
            d.abandon(live[0]);
        }
        // final conservation: every object is somewhere
        if !d.world().stop() {
            let closed = d.world().closed;
            let n_in = d.world().in_pool();
            let mut got = Vec::new();
            for _ in 0..n_in {
                d.try_get(false);
            }
            got.append(&mut d.held);
            if !closed && got.len() != n_in && !d.world().stop() {
                d.world().viol(&["C05"], "objects_lost", format!("{} objects should wait in the pool but only {} could be taken out", n_in, got.len()));
            }
            d.held = got;
            d.world().bump("final_drains");
        }
        let mut wl = d.world();
        wl.teardown = true;
        wl.pool_dropped = true;
        drop(wl);
        out_sched = d.sched.0;
        out_states = std::mem::take(&mut d.states);
        drop(d);
    });
    let mut wl = lock(&w);
    let nontrivial = wl.blocked_seen && (wl.was_full || wl.closed) ;
    UOut {
        violations: std::mem::take(&mut wl.violations),
        foreign: wl.foreign,
        log: std::mem::take(&mut wl.log),
        hash: wl.log_hash.0,
        sched: out_sched,
        states: out_states,
        counters: std::mem::take(&mut wl.counters),
        nontrivial,
        events: wl.events,
        cfg,
    }
}

pub fn history_json(p: &UProfile, seed: u64, idx: u64, out: &UOut, max_lines: usize) -> Json {
    let mut lines: Vec<Json> = out.log.iter().take(max_lines).map(|s| Json::from(s.as_str())).collect();
    if out.log.len() > max_lines {
        lines.push(Json::from(format!("... {} more lines", out.log.len() - max_lines)));
    }
    Json::obj()
        .with("engine", "utl")
        .with("profile_prop", p.prop)
        .with("seed", seed)
        .with("index", idx)
        .with("config", out.cfg.as_str())
        .with("log", Json::Arr(lines))
}

// ------------------------------------------------------------------ C10 table (unmanaged)

/// Complete table for the unmanaged pool's single timeout:
/// runtime x timeout in {none, zero, finite} x {timeout_get, get with configured timeout}
/// x object becomes available {immediately, before, at, after the deadline, never}.
pub fn c10_table(rt: &tokio::runtime::Runtime, keep_log: bool) -> Vec<(String, Vec<String>, Option<Violation>)> {
    const D: u64 = 100;
    let mut out = Vec::new();
    for runtime in [true, false] {
        for (tn, timeout) in [("none", None), ("zero", Some(Duration::ZERO)), ("finite", Some(Duration::from_millis(D)))] {
            for via_config in [false, true] {
                for (an, avail) in [("immediately", Some(0u64)), ("before", Some(D / 2)), ("at_deadline", Some(D)), ("after", Some(D + D / 2)), ("never", None)] {
                    let sig = format!("rt={};timeout={};via={};avail={}", runtime, tn, if via_config { "config" } else { "timeout_get" }, an);
                    let w: UW = Arc::new(Mutex::new(UWorld {
                        prop: "C10",
                        log: Vec::new(),
                        keep_log,
                        log_hash: Default::default(),
                        locs: Vec::new(),
                        max_size: 1,
                        closed: false,
                        pool_dropped: false,
                        teardown: false,
                        op: "build".into(),
                        violations: Vec::new(),
                        foreign: 0,
                        counters: BTreeMap::new(),
                        events: 0,
                        was_full: false,
                        was_empty_with_getter: false,
                        blocked_seen: false,
                    }));
                    lock(&w).ev(format!("unmanaged C10 scenario {}", sig));
                    let mut class = "pending";
                    rt.block_on(async {
                        let mut c = PoolConfig::new(1);
                        c.timeout = if via_config { timeout } else { None };
                        c.runtime = if runtime { Some(Runtime::Tokio1) } else { None };
                        let mut d = UDirector {
                            w: w.clone(),
                            pool: Some(Pool::from_config(&c)),
                            cfg_timeout: c.timeout,
                            runtime,
                            tasks: Vec::new(),
                            held: Vec::new(),
                            external: Vec::new(),
                            sched: Default::default(),
                            states: Default::default(),
                        };
                        if avail == Some(0) {
                            let o = d.new_obj();
                            d.try_add(o);
                        }
                        d.start(if via_config { UKind::Get } else { UKind::TimeoutGet(timeout) }, None);
                        let mut now = 0u64;
                        for _ in 0..8 {
                            if d.tasks[0].fut.is_none() || d.world().stop() {
                                break;
                            }
                            if avail == Some(now) && now > 0 {
                                let o = d.new_obj();
                                d.try_add(o);
                            }
                            let mut guard = 0;
                            while !d.ready().is_empty() && guard < 10 {
                                guard += 1;
                                let r = d.ready();
                                d.poll(r[0], format!("poll t{}", r[0]));
                            }
                            if d.tasks[0].fut.is_none() {
                                break;
                            }
                            d.begin(format!("advance {}ms", D / 2));
                            tokio::time::advance(Duration::from_millis(D / 2)).await;
                            d.after();
                            now += D / 2;
                        }
                        class = if d.tasks[0].fut.is_some() {
                            "pending"
                        } else if !d.held.is_empty() {
                            "ok"
                        } else {
                            let w = d.world();
                            if w.counters.get("gets_timeout").copied().unwrap_or(0) > 0 {
                                "timeout"
                            } else if w.counters.get("gets_no_runtime").copied().unwrap_or(0) > 0 {
                                "no_runtime"
                            } else {
                                "other"
                            }
                        };
                        let mut wl = d.world();
                        wl.teardown = true;
                        wl.pool_dropped = true;
                        drop(wl);
                        drop(d);
                    });
                    let exp: Vec<&str> = match (tn, runtime, an) {
                        ("none", _, "never") => vec!["pending"],
                        ("none", _, _) => vec!["ok"],
                        ("zero", _, "immediately") => vec!["ok"],
                        ("zero", _, _) => vec!["timeout"],
                        ("finite", false, _) => vec!["no_runtime"],
                        ("finite", true, "immediately") | ("finite", true, "before") => vec!["ok"],
                        ("finite", true, "at_deadline") => vec!["ok", "timeout"],
                        ("finite", true, _) => vec!["timeout"],
                        _ => vec![],
                    };
                    let mut wl = lock(&w);
                    let mut v = wl.violations.first().cloned();
                    if v.is_none() && !exp.contains(&class) {
                        v = Some(Violation { prop: "C10", oracle: "unmanaged_timeout_table", msg: format!("scenario {} ended with {}; the documented behaviour allows {:?}", sig, class, exp) });
                    }
                    wl.log.push(format!("result class {} (acceptable {:?})", class, exp));
                    out.push((sig, std::mem::take(&mut wl.log), v));
                }
            }
        }
    }
    out
}

/// max_size is honoured far away from the small sizes the histories use: a pool of `n` slots takes exactly `n`
/// objects (try_add and add), refuses the next one, and gives all of them back.
pub fn big_pool(n: usize) -> Vec<Violation> {
    use deadpool::unmanaged::Pool as UPool;
    let mut v = Vec::new();
    let pool: UPool<usize> = UPool::new(n);
    for i in 0..n {
        let r = if i % 2 == 0 { pool.try_add(i).map_err(|(_, e)| e) } else { crate::th::poll_once(pool.add(i)).unwrap_or(Err((i, deadpool::unmanaged::PoolError::Timeout))).map_err(|(_, e)| e) };
        if let Err(e) = r {
            v.push(Violation { prop: "C05", oracle: "try_add_refused_with_room", msg: format!("pool with max_size {}: object number {} was refused with {:?} (status {:?})", n, i + 1, e, pool.status()) });
            return v;
        }
    }
    let st = pool.status();
    if st.max_size != n || st.size != n || st.available != n {
        v.push(Violation { prop: "C05", oracle: "status_at_rest", msg: format!("pool with max_size {} and {} objects reports {:?}", n, n, st) });
    }
    if pool.try_add(n).is_ok() {
        v.push(Violation { prop: "C05", oracle: "add_over_max_size", msg: format!("pool with max_size {} accepted object number {}", n, n + 1) });
    }
    let mut got = 0;
    while let Ok(o) = pool.try_remove() {
        let _ = o;
        got += 1;
        if got > n + 1 {
            break;
        }
    }
    if got != n {
        v.push(Violation { prop: "C05", oracle: "objects_lost", msg: format!("{} objects were added, {} could be removed", n, got) });
    }
    v
}
