//! vh-sync: runtime monitors for SyncWrapper (C14) and the pools built on it
//! (sqlite, r2d2, diesel — C15).

mod c14;
mod c15;

use vh_common::{Args, Coverage, Finding, Json, Report, Violation};

pub struct Case {
    pub violations: Vec<Violation>,
    pub hash: u64,
    pub nontrivial: bool,
    pub events: u64,
    pub counters: std::collections::BTreeMap<String, u64>,
    pub desc: Json,
    pub sig_tail: String,
}

const TIMING_ORACLES: &[&str] = &["destructor_never_ran", "pool_stopped_serving", "capacity_lost", "destructor_count", "drop_blocked_async_thread", "debug_blocked_async_thread", "get_hang", "harness"];

fn run_many(args: &Args, rep: &mut Report, engine: &str, n: u64, jobs: usize, f: impl Fn(u64) -> Case + Send + Sync + 'static) {
    let f = std::sync::Arc::new(f);
    let prop = args.prop.clone();
    let eng = engine.to_string();
    let outs = vh_common::parallel(jobs.max(1), move |wk| {
        let mut cov = Coverage::default();
        let mut finds = Vec::new();
        let mut i = wk as u64;
        while i < n {
            let _case = vh_common::CaseGuard::new(format!("{} case {}", eng, i));
            let mut c = f(i);
            // verdicts that rest on a generous wall-clock watchdog are only believed if they repeat
            if c.violations.first().map(|v| TIMING_ORACLES.contains(&v.oracle)).unwrap_or(false) {
                let again = f(i);
                if again.violations.first().map(|v| v.oracle) != c.violations.first().map(|v| v.oracle) {
                    cov.inconclusive.push(format!("watchdog verdict {} of case {} did not repeat", c.violations[0].oracle, i));
                    c = again;
                }
            }
            cov.evaluations += 1;
            cov.events += c.events;
            let _ = cov.distinct.insert(c.hash);
            if c.nontrivial {
                let _ = cov.nontrivial.insert(c.hash);
            }
            let _ = cov.schedules.insert(c.hash);
            for (k, v) in &c.counters {
                cov.add(k, *v);
            }
            if !c.violations.is_empty() {
                cov.bump("violating_cases");
            }
            if let Some(v) = c.violations.first() {
                if finds.len() < 4 {
                    finds.push(Finding { v: v.clone(), sig: format!("{}/{}/{}{}", prop, eng, v.oracle, c.sig_tail), replay: c.desc.clone() });
                }
            } else if cov.samples.is_empty() && c.nontrivial {
                cov.sample(c.desc);
            }
            i += jobs.max(1) as u64;
        }
        (cov, finds)
    });
    for (cov, finds) in outs {
        rep.engine(engine).merge(cov);
        rep.add_findings(finds);
    }
}

/// Listens to everything (so that every field expression of every event is evaluated) and counts.
#[cfg(feature = "subscriber")]
mod listen {
    use std::sync::atomic::{AtomicU64, Ordering};
    pub static EVENTS: AtomicU64 = AtomicU64::new(0);
    pub static SPANS: AtomicU64 = AtomicU64::new(0);
    pub struct Sub;
    struct Fields(usize);
    impl tracing::field::Visit for Fields {
        fn record_debug(&mut self, _: &tracing::field::Field, v: &dyn std::fmt::Debug) {
            self.0 += format!("{:?}", v).len();
        }
    }
    impl tracing::Subscriber for Sub {
        fn enabled(&self, _: &tracing::Metadata<'_>) -> bool {
            true
        }
        fn new_span(&self, _: &tracing::span::Attributes<'_>) -> tracing::span::Id {
            tracing::span::Id::from_u64(SPANS.fetch_add(1, Ordering::Relaxed) + 1)
        }
        fn record(&self, _: &tracing::span::Id, _: &tracing::span::Record<'_>) {}
        fn record_follows_from(&self, _: &tracing::span::Id, _: &tracing::span::Id) {}
        fn event(&self, e: &tracing::Event<'_>) {
            let mut f = Fields(0);
            e.record(&mut f);
            let _ = EVENTS.fetch_add(1, Ordering::Relaxed);
        }
        fn enter(&self, _: &tracing::span::Id) {}
        fn exit(&self, _: &tracing::span::Id) {}
    }
}

fn main() {
    vh_common::install_panic_hook();
    #[cfg(feature = "subscriber")]
    tracing::subscriber::set_global_default(listen::Sub).expect("subscriber");
    let args = Args::parse();
    vh_common::install_hang_watchdog(&args.prop);
    if args.prop == "replay" {
        let path = args.replay.clone().expect("replay file");
        let txt = std::fs::read_to_string(&path).expect("read");
        let j = vh_common::parse_json(&txt).expect("json");
        let engine = j.get("engine").and_then(Json::as_str).unwrap_or("").to_string();
        let seed = j.get("seed").and_then(Json::as_i64).unwrap_or(1) as u64;
        let idx = j.get("index").and_then(Json::as_i64).unwrap_or(0) as u64;
        let mut reproduced = 0;
        // thread timing is not controlled: try a few times
        for _ in 0..20 {
            let c = match engine.as_str() {
                "c14" => c14::history(seed, idx),
                "c14_drop_race" => c14::drop_race(seed, idx),
                "c14_zst" => c14::zst_value(seed, idx),
                "c15_sqlite" => c15::history(c15::Backend::Sqlite, seed, idx),
                "c15_r2d2" => c15::history(c15::Backend::R2d2, seed, idx),
                "c15_diesel" => c15::history(c15::Backend::Diesel, seed, idx),
                _ => {
                    eprintln!("unknown engine");
                    std::process::exit(3)
                }
            };
            if let Some(v) = c.violations.first() {
                println!("{}", c.desc.render());
                println!("REPLAY: reproduced {} {} :: {}", v.prop, v.oracle, v.msg);
                reproduced += 1;
                break;
            }
        }
        if reproduced == 0 {
            println!("REPLAY: no violation reproduced in 20 runs");
        }
        std::process::exit(if reproduced > 0 { 1 } else { 0 });
    }
    let sc = |q: f64, t: f64| (args.tier.pick(q, t) * args.scale) as u64;
    let seed = args.seed;
    match args.prop.as_str() {
        "C14" => {
            let mut rep = Report::new(
                &args,
                "exploration",
                "cases = seeded random histories of interact calls (completing, panicking, cancelled before / while the closure runs) followed by dropping the wrapper at a random moment, on a multi-thread tokio runtime; distinct = hash of the operation script and of the observed outcome; non-trivial = the history contains a panic, a cancellation, or a drop while a closure was still running",
            );
            // each history owns a small runtime: run several at once
            run_many(&args, &mut rep, "c14", sc(1500.0, 40_000.0), args.jobs, move |i| c14::history(seed, i));
            // the one window no history can aim at: the end of an abandoned closure against the drop of the wrapper
            // (400 trials per case; few cases at a time, the trials spin)
            // a zero-sized value with a destructor (one at a time: its log is a static)
            run_many(&args, &mut rep, "c14_zst", sc(60.0, 1500.0), 1, move |i| c14::zst_value(seed, i));
            run_many(&args, &mut rep, "c14_drop_race", sc(100.0, 2500.0), (args.jobs / 4).max(1), move |i| c14::drop_race(seed, i));
            #[cfg(feature = "subscriber")]
            {
                rep.engine("c14").add("tracing_events_heard", listen::EVENTS.load(std::sync::atomic::Ordering::Relaxed));
                rep.engine("c14").add("tracing_spans_heard", listen::SPANS.load(std::sync::atomic::Ordering::Relaxed));
            }
            std::process::exit(rep.finish(&args));
        }
        "C15" => {
            let mut rep = Report::new(
                &args,
                "exploration",
                "cases = seeded random histories of gets, interactions (ok / panic / cancelled), 'broken' markings and returns over sqlite, r2d2 and diesel-sqlite pools of size 1..4; every connection carries an identity marker; distinct = hash of script and outcome; non-trivial = at least one connection was poisoned or broken and a later get happened",
            );
            run_many(&args, &mut rep, "c15_sqlite", sc(400.0, 8_000.0), args.jobs / 2, move |i| c15::history(c15::Backend::Sqlite, seed, i));
            run_many(&args, &mut rep, "c15_r2d2", sc(600.0, 12_000.0), args.jobs / 2, move |i| c15::history(c15::Backend::R2d2, seed, i));
            run_many(&args, &mut rep, "c15_diesel", sc(400.0, 8_000.0), args.jobs / 2, move |i| c15::history(c15::Backend::Diesel, seed, i));
            std::process::exit(rep.finish(&args));
        }
        p => {
            println!("BROKEN vh-sync does not serve {}", p);
            std::process::exit(3);
        }
    }
}
