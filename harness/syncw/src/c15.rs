//! C15: a connection whose interaction panicked, or that the backend reports
//! as broken / invalid, is never handed out again (sqlite, r2d2, diesel).

use std::collections::{BTreeMap, HashSet};
use std::sync::atomic::{AtomicU64, Ordering};
use std::sync::{Arc, Mutex};
use std::time::Duration;

use deadpool::Runtime;
use vh_common::{Hasher, InjectedPanic, Json, Rng, Violation};

use crate::Case;

#[derive(Clone, Copy, Debug, PartialEq, Eq)]
pub enum Backend {
    Sqlite,
    R2d2,
    Diesel,
}

#[derive(Clone, Copy, Debug, PartialEq, Eq)]
enum Op {
    Get,
    Use(usize),
    Poison(usize),
    Cancel(usize),
    CancelThenPanic(usize),
    /// the abandoned closure is still running when the connection is returned and the next get()
    /// recycles it; the closure ends by panicking or by leaving the connection broken
    ReturnWhileRunning(usize),
    Break(usize),
    Return(usize),
}

// ------------------------------------------------------------------ r2d2 scripted manager

#[derive(Debug)]
pub struct RErr(String);
impl std::fmt::Display for RErr {
    fn fmt(&self, f: &mut std::fmt::Formatter<'_>) -> std::fmt::Result {
        write!(f, "{}", self.0)
    }
}
impl std::error::Error for RErr {}

#[derive(Default)]
pub struct RShared {
    next: AtomicU64,
    broken: Mutex<HashSet<u64>>,
    invalid: Mutex<HashSet<u64>>,
    /// the validity check of these connections fails exactly once (the next time it is asked)
    invalid_once: Mutex<HashSet<u64>>,
    /// the validity check of these connections panics (once) - with a payload that is not a string
    panic_once: Mutex<HashSet<u64>>,
    checks: AtomicU64,
}
pub struct RMgr(Arc<RShared>);
pub struct RConn {
    serial: u64,
}
impl r2d2::ManageConnection for RMgr {
    type Connection = RConn;
    type Error = RErr;
    fn connect(&self) -> Result<RConn, RErr> {
        Ok(RConn { serial: self.0.next.fetch_add(1, Ordering::SeqCst) + 1 })
    }
    fn is_valid(&self, c: &mut RConn) -> Result<(), RErr> {
        let _ = self.0.checks.fetch_add(1, Ordering::SeqCst);
        if self.0.invalid_once.lock().unwrap().remove(&c.serial) {
            return Err(RErr("invalid (this once)".into()));
        }
        if self.0.panic_once.lock().unwrap().remove(&c.serial) {
            std::panic::panic_any(InjectedPanic(18));
        }
        if self.0.invalid.lock().unwrap().contains(&c.serial) {
            Err(RErr("invalid".into()))
        } else {
            Ok(())
        }
    }
    fn has_broken(&self, c: &mut RConn) -> bool {
        self.0.broken.lock().unwrap().contains(&c.serial)
    }
}

/// Polls the inner future inside `catch_unwind`.
struct CatchUnwind<F>(std::pin::Pin<Box<F>>);
impl<F: std::future::Future> std::future::Future for CatchUnwind<F> {
    type Output = Result<F::Output, ()>;
    fn poll(mut self: std::pin::Pin<&mut Self>, cx: &mut std::task::Context<'_>) -> std::task::Poll<Self::Output> {
        let inner = self.0.as_mut();
        match std::panic::catch_unwind(std::panic::AssertUnwindSafe(|| inner.poll(cx))) {
            Ok(std::task::Poll::Ready(v)) => std::task::Poll::Ready(Ok(v)),
            Ok(std::task::Poll::Pending) => std::task::Poll::Pending,
            Err(_) => std::task::Poll::Ready(Err(())),
        }
    }
}

/// A panic that comes out of an awaited call (instead of an error value) must not take the history down.
async fn guarded<F: std::future::Future>(f: F) -> Result<F::Output, String> {
    CatchUnwind(Box::pin(f)).await.map_err(|_| "the awaited call itself panicked".to_string())
}

// ------------------------------------------------------------------ backend abstraction

enum AnyPool {
    Sqlite(deadpool_sqlite::Pool),
    R2d2(deadpool_r2d2::Pool<deadpool_r2d2::Manager<RMgr>>, Arc<RShared>),
    Diesel(deadpool_diesel::sqlite::Pool),
}
enum AnyConn {
    Sqlite(deadpool_sqlite::Object),
    R2d2(deadpool::managed::Object<deadpool_r2d2::Manager<RMgr>>),
    Diesel(deadpool_diesel::sqlite::Object),
}

fn diesel_user_version(c: &mut diesel::SqliteConnection) -> Result<i32, diesel::result::Error> {
    use diesel::RunQueryDsl;
    diesel::select(diesel::dsl::sql::<diesel::sql_types::Integer>("(SELECT user_version FROM pragma_user_version)")).get_result::<i32>(c)
}

impl AnyPool {
    async fn get(&self) -> Result<AnyConn, String> {
        let t = Duration::from_secs(20);
        match self {
            AnyPool::Sqlite(p) => match tokio::time::timeout(t, CatchUnwind(Box::pin(p.get()))).await {
                Ok(Ok(Ok(c))) => Ok(AnyConn::Sqlite(c)),
                Ok(Ok(Err(e))) => Err(format!("{:?}", e)),
                Ok(Err(())) => Err("get() itself panicked".into()),
                Err(_) => Err("hang".into()),
            },
            AnyPool::R2d2(p, _) => match tokio::time::timeout(t, CatchUnwind(Box::pin(p.get()))).await {
                Ok(Ok(Ok(c))) => Ok(AnyConn::R2d2(c)),
                Ok(Ok(Err(e))) => Err(format!("{:?}", e)),
                Ok(Err(())) => Err("get() itself panicked".into()),
                Err(_) => Err("hang".into()),
            },
            AnyPool::Diesel(p) => match tokio::time::timeout(t, CatchUnwind(Box::pin(p.get()))).await {
                Ok(Ok(Ok(c))) => Ok(AnyConn::Diesel(c)),
                Ok(Ok(Err(e))) => Err(format!("{:?}", e)),
                Ok(Err(())) => Err("get() itself panicked".into()),
                Err(_) => Err("hang".into()),
            },
        }
    }
    fn status(&self) -> deadpool::Status {
        match self {
            AnyPool::Sqlite(p) => p.status(),
            AnyPool::R2d2(p, _) => p.status(),
            AnyPool::Diesel(p) => p.status(),
        }
    }
}

impl AnyConn {
    /// Reads the identity marker; a fresh connection (marker 0) is stamped with `fresh`.
    async fn marker(&self, fresh: u64) -> Result<u64, String> {
        match self {
            AnyConn::Sqlite(c) => guarded(c.interact(move |c| {
                let v: i64 = c.pragma_query_value(None, "user_version", |r| r.get(0))?;
                if v == 0 {
                    c.pragma_update(None, "user_version", fresh as i64)?;
                    Ok::<u64, deadpool_sqlite::rusqlite::Error>(fresh)
                } else {
                    Ok(v as u64)
                }
            }))
            .await?
            .map_err(|e| format!("{}", e))?
                .map_err(|e| format!("{}", e)),
            AnyConn::R2d2(c) => guarded(c.interact(|c| c.serial)).await?.map_err(|e| format!("{}", e)),
            AnyConn::Diesel(c) => guarded(c.interact(move |c| {
                use diesel::RunQueryDsl;
                let v = diesel_user_version(c)?;
                if v == 0 {
                    let _ = diesel::sql_query(format!("PRAGMA user_version = {}", fresh)).execute(c)?;
                    Ok::<u64, diesel::result::Error>(fresh)
                } else {
                    Ok(v as u64)
                }
            }))
            .await?
            .map_err(|e| format!("{}", e))?
                .map_err(|e| format!("{}", e)),
        }
    }
    async fn use_ok(&self) -> Result<(), String> {
        match self {
            AnyConn::Sqlite(c) => guarded(c.interact(|c| c.query_row("SELECT 1", [], |r| r.get::<_, i64>(0)).map(|_| ()))).await?.map_err(|e| format!("{}", e))?.map_err(|e| format!("{}", e)),
            AnyConn::R2d2(c) => guarded(c.interact(|_| ())).await?.map_err(|e| format!("{}", e)),
            AnyConn::Diesel(c) => guarded(c.interact(|c| diesel_user_version(c).map(|_| ()))).await?.map_err(|e| format!("{}", e))?.map_err(|e| format!("{}", e)),
        }
    }
    /// true if the panic was reported as an error (a panic that comes out of `interact().await` itself is
    /// C14's business; here it only must not take the history down)
    async fn poison(&self) -> bool {
        let r = match self {
            AnyConn::Sqlite(c) => CatchUnwind(Box::pin(c.interact(|_| -> () { std::panic::panic_any(InjectedPanic(15)) }))).await.map(|r| r.is_err()),
            AnyConn::R2d2(c) => CatchUnwind(Box::pin(c.interact(|_| -> () { std::panic::panic_any(InjectedPanic(15)) }))).await.map(|r| r.is_err()),
            AnyConn::Diesel(c) => CatchUnwind(Box::pin(c.interact(|_| -> () { std::panic::panic_any(InjectedPanic(15)) }))).await.map(|r| r.is_err()),
        };
        r.unwrap_or(false)
    }
    /// Waits (without going through interact()) until no closure holds the connection any more.
    async fn wait_unlocked(&self) {
        for _ in 0..20_000 {
            let busy = match self {
                AnyConn::Sqlite(c) => matches!(c.try_lock(), Err(std::sync::TryLockError::WouldBlock)),
                AnyConn::R2d2(c) => matches!(c.try_lock(), Err(std::sync::TryLockError::WouldBlock)),
                AnyConn::Diesel(c) => matches!(c.try_lock(), Err(std::sync::TryLockError::WouldBlock)),
            };
            if !busy {
                return;
            }
            tokio::time::sleep(Duration::from_micros(200)).await;
        }
    }
    fn is_poisoned(&self) -> bool {
        match self {
            AnyConn::Sqlite(c) => c.is_mutex_poisoned(),
            AnyConn::R2d2(c) => c.is_mutex_poisoned(),
            AnyConn::Diesel(c) => c.is_mutex_poisoned(),
        }
    }
}

pub fn history(backend: Backend, seed: u64, idx: u64) -> Case {
    let mut rng = Rng::derive(seed, 0xC15 + backend as u64, idx);
    let max_size = rng.range(1, 4) as usize;
    let n_ops = rng.range(4, 30) as usize;
    let lifo = rng.chance(1, 2);
    // diesel recycling method
    let diesel_method = rng.below(5);
    // where the SyncWrapper sends its blocking work (the tasks themselves are always polled by tokio)
    let runtime = if rng.chance(1, 4) { Runtime::AsyncStd1 } else { Runtime::Tokio1 };
    let rt = tokio::runtime::Builder::new_multi_thread().worker_threads(2).max_blocking_threads(4).enable_time().build().expect("runtime");
    let mut viol: Vec<Violation> = Vec::new();
    let mut log: Vec<String> = Vec::new();
    let mut counters: BTreeMap<String, u64> = BTreeMap::new();
    let bad_fn: Arc<Mutex<HashSet<u64>>> = Arc::new(Mutex::new(HashSet::new()));
    let config_desc = format!("backend={:?} runtime={:?} max_size={} lifo={} diesel_method={}", backend, runtime, max_size, lifo, diesel_method);
    let mut nontrivial = false;
    rt.block_on(async {
        let qm = if lifo { deadpool::managed::QueueMode::Lifo } else { deadpool::managed::QueueMode::Fifo };
        let pool = match backend {
            Backend::Sqlite => {
                let cfg = deadpool_sqlite::Config::new(":memory:");
                AnyPool::Sqlite(cfg.builder(runtime).expect("builder").max_size(max_size).queue_mode(qm).build().expect("build"))
            }
            Backend::R2d2 => {
                let sh = Arc::new(RShared::default());
                let m = deadpool_r2d2::Manager::new(RMgr(sh.clone()), runtime);
                AnyPool::R2d2(deadpool_r2d2::Pool::builder(m).max_size(max_size).queue_mode(qm).build().expect("build"), sh)
            }
            Backend::Diesel => {
                use deadpool_diesel::{ManagerConfig, RecyclingMethod};
                let bad = bad_fn.clone();
                let method = match diesel_method {
                    0 => RecyclingMethod::Fast,
                    1 => RecyclingMethod::Verified,
                    2 => RecyclingMethod::CustomQuery("SELECT 1".into()),
                    3 => RecyclingMethod::CustomQuery("SELECT * FROM no_such_table".into()),
                    _ => RecyclingMethod::CustomFunction(Box::new(move |c: &mut diesel::SqliteConnection| {
                        let v = diesel_user_version(c).map_err(deadpool_diesel::Error::Ping)?;
                        if bad.lock().unwrap().contains(&(v as u64)) {
                            Err(deadpool_diesel::Error::Ping(diesel::result::Error::NotFound))
                        } else {
                            Ok(())
                        }
                    })),
                };
                let m = deadpool_diesel::sqlite::Manager::from_config(":memory:", runtime, ManagerConfig { recycling_method: method });
                AnyPool::Diesel(deadpool_diesel::sqlite::Pool::builder(m).max_size(max_size).queue_mode(qm).build().expect("build"))
            }
        };
        let mut next_serial: u64 = 100;
        let mut held: Vec<(AnyConn, u64)> = Vec::new();
        let mut bad: HashSet<u64> = HashSet::new(); // markers that must never be handed out again
        let mut returned_bad = false;
        let every_used_is_bad = backend == Backend::Diesel && diesel_method == 3;
        let mut check_handout = |c: &AnyConn, m: u64, bad: &HashSet<u64>, log: &mut Vec<String>, viol: &mut Vec<Violation>| {
            log.push(format!("handed out #{}", m));
            if bad.contains(&m) {
                viol.push(Violation { prop: "C15", oracle: "bad_connection_reissued", msg: format!("connection #{} was handed out again after it was poisoned / reported broken ({})", m, config_desc) });
            }
            if c.is_poisoned() {
                viol.push(Violation { prop: "C15", oracle: "poisoned_connection_issued", msg: format!("connection #{} handed out with a poisoned mutex", m) });
            }
        };
        for _ in 0..n_ops {
            if !viol.is_empty() {
                break;
            }
            let op = {
                let can_get = held.len() < max_size;
                let x = rng.below(100);
                if held.is_empty() || (can_get && x < 30) {
                    Op::Get
                } else {
                    let i = rng.usize_below(held.len());
                    match x {
                        30..=44 => Op::Use(i),
                        45..=56 => Op::Poison(i),
                        57..=59 => Op::Cancel(i),
                        60..=62 => Op::CancelThenPanic(i),
                        63..=66 => Op::ReturnWhileRunning(i),
                        67..=76 => Op::Break(i),
                        _ => Op::Return(i),
                    }
                }
            };
            *counters.entry(format!("op:{}", format!("{:?}", op).split('(').next().unwrap())).or_insert(0) += 1;
            match op {
                Op::Get => match pool.get().await {
                    Ok(c) => {
                        next_serial += 1;
                        match c.marker(next_serial).await {
                            Ok(m) => {
                                if returned_bad {
                                    nontrivial = true;
                                }
                                check_handout(&c, m, &bad, &mut log, &mut viol);
                                held.push((c, m));
                            }
                            Err(e) => viol.push(Violation { prop: "C15", oracle: "unusable_connection_issued", msg: format!("a connection handed out by get() could not be used: {}", e) }),
                        }
                    }
                    Err(e) => viol.push(Violation { prop: "C15", oracle: "pool_stopped_serving", msg: format!("get() with {} of {} connections out failed: {}", held.len(), max_size, e) }),
                },
                Op::Use(i) => {
                    if !bad.contains(&held[i].1) {
                        if let Err(e) = held[i].0.use_ok().await {
                            log.push(format!("use #{} failed: {}", held[i].1, e));
                        }
                    }
                    if every_used_is_bad {
                        let _ = bad.insert(held[i].1);
                    }
                }
                Op::Poison(i) => {
                    let ok = held[i].0.poison().await;
                    log.push(format!("poison #{} -> reported={}", held[i].1, ok));
                    let _ = bad.insert(held[i].1);
                    let _ = bad_fn.lock().unwrap().insert(held[i].1);
                }
                Op::Cancel(i) => {
                    // start an interaction and drop its future at once
                    match &held[i].0 {
                        AnyConn::Sqlite(c) => drop(std::pin::pin!(c.interact(|_| std::thread::sleep(Duration::from_micros(200))))),
                        AnyConn::R2d2(c) => drop(std::pin::pin!(c.interact(|_| std::thread::sleep(Duration::from_micros(200))))),
                        AnyConn::Diesel(c) => drop(std::pin::pin!(c.interact(|_| std::thread::sleep(Duration::from_micros(200))))),
                    }
                    log.push(format!("cancelled interaction on #{}", held[i].1));
                }
                Op::CancelThenPanic(i) => {
                    // the interaction is abandoned by the caller while its closure runs; the closure then panics
                    if bad.contains(&held[i].1) {
                        continue;
                    }
                    let started = Arc::new(std::sync::atomic::AtomicBool::new(false));
                    let st = started.clone();
                    let body = move || {
                        st.store(true, Ordering::SeqCst);
                        std::thread::sleep(Duration::from_micros(300));
                        std::panic::panic_any(InjectedPanic(16));
                    };
                    match &held[i].0 {
                        AnyConn::Sqlite(c) => drop(guarded(tokio::time::timeout(Duration::from_micros(50), c.interact(move |_| -> () { body() }))).await),
                        AnyConn::R2d2(c) => drop(guarded(tokio::time::timeout(Duration::from_micros(50), c.interact(move |_| -> () { body() }))).await),
                        AnyConn::Diesel(c) => drop(guarded(tokio::time::timeout(Duration::from_micros(50), c.interact(move |_| -> () { body() }))).await),
                    }
                    for _ in 0..2000 {
                        if started.load(Ordering::SeqCst) {
                            break;
                        }
                        tokio::time::sleep(Duration::from_micros(250)).await;
                    }
                    if started.load(Ordering::SeqCst) {
                        // barrier: the next interaction on the same connection can only start once the
                        // panicking closure has let go of the connection
                        held[i].0.wait_unlocked().await;
                        let _ = bad.insert(held[i].1);
                        let _ = bad_fn.lock().unwrap().insert(held[i].1);
                        log.push(format!("abandoned interaction on #{} panicked", held[i].1));
                        *counters.entry("cancelled_then_panicked".into()).or_insert(0) += 1;
                    }
                }
                Op::ReturnWhileRunning(i) => {
                    // only when the returned connection is the one the next get() must look at
                    if bad.contains(&held[i].1) || pool.status().available != 0 {
                        continue;
                    }
                    use std::sync::atomic::AtomicBool;
                    let started = Arc::new(AtomicBool::new(false));
                    let gate = Arc::new(AtomicBool::new(false));
                    let marked = Arc::new(AtomicBool::new(false));
                    let panic_end = rng.chance(1, 2);
                    let invalid_not_broken = rng.chance(1, 2);
                    let (st, g) = (started.clone(), gate.clone());
                    let wait = move || {
                        st.store(true, Ordering::SeqCst);
                        for _ in 0..40_000 {
                            if g.load(Ordering::SeqCst) {
                                break;
                            }
                            std::thread::sleep(Duration::from_micros(250));
                        }
                    };
                    let mk = marked.clone();
                    let serial = held[i].1;
                    let short = Duration::from_micros(50);
                    match (&held[i].0, &pool) {
                        (AnyConn::Sqlite(c), _) => drop(
                            tokio::time::timeout(short, c.interact(move |_| -> () {
                                wait();
                                mk.store(true, Ordering::SeqCst);
                                std::panic::panic_any(InjectedPanic(17))
                            }))
                            .await,
                        ),
                        (AnyConn::R2d2(c), AnyPool::R2d2(_, sh)) => {
                            if !panic_end {
                                if invalid_not_broken {
                                    let _ = sh.invalid.lock().unwrap().insert(serial);
                                } else {
                                    let _ = sh.broken.lock().unwrap().insert(serial);
                                }
                            }
                            drop(
                                tokio::time::timeout(short, c.interact(move |_| {
                                    wait();
                                    if panic_end {
                                        mk.store(true, Ordering::SeqCst);
                                        std::panic::panic_any(InjectedPanic(17))
                                    }
                                }))
                                .await,
                            )
                        }
                        (AnyConn::Diesel(c), _) => drop(
                            tokio::time::timeout(short, c.interact(move |c| {
                                use diesel::connection::{AnsiTransactionManager, TransactionManager};
                                wait();
                                if panic_end {
                                    mk.store(true, Ordering::SeqCst);
                                    std::panic::panic_any(InjectedPanic(17))
                                }
                                if AnsiTransactionManager::begin_transaction(c).is_ok() {
                                    mk.store(true, Ordering::SeqCst);
                                }
                            }))
                            .await,
                        ),
                        _ => unreachable!(),
                    }
                    for _ in 0..2000 {
                        if started.load(Ordering::SeqCst) {
                            break;
                        }
                        tokio::time::sleep(Duration::from_micros(250)).await;
                    }
                    if !started.load(Ordering::SeqCst) {
                        // the closure never got a thread: nothing can be said about this connection
                        gate.store(true, Ordering::SeqCst);
                        let (c, m) = held.swap_remove(i);
                        c.wait_unlocked().await;
                        log.push(format!("abandoned closure on #{} did not start in time; connection taken out of the pool", m));
                        match c {
                            AnyConn::Sqlite(c) => drop(deadpool_sqlite::Object::take(c)),
                            AnyConn::R2d2(c) => drop(deadpool::managed::Object::take(c)),
                            AnyConn::Diesel(c) => drop(deadpool_diesel::sqlite::Object::take(c)),
                        }
                        continue;
                    }
                    let (c, m) = held.swap_remove(i);
                    // r2d2, no panic: the backend reports the connection as broken / invalid from now on, i.e.
                    // before the get() below even starts - whatever the closure and the recycle do in which order
                    let reported_before = matches!(backend, Backend::R2d2) && !panic_end;
                    if reported_before {
                        let _ = bad.insert(m);
                        returned_bad = true;
                    }
                    log.push(format!(
                        "returned #{} while an abandoned closure still runs on it ({})",
                        m,
                        if reported_before { "the backend already reports it broken" } else if panic_end { "the closure will panic" } else { "the closure will leave it broken" }
                    ));
                    drop(c);
                    let fut = pool.get();
                    tokio::pin!(fut);
                    // every recycle goes through interact(), i.e. it queues behind the running closure
                    let early = tokio::time::timeout(Duration::from_millis(if reported_before { 2 } else { 25 }), &mut fut).await;
                    gate.store(true, Ordering::SeqCst);
                    let (res, was_early) = match early {
                        Ok(r) => (r, true),
                        Err(_) => (fut.await, false),
                    };
                    *counters.entry(if was_early { "get_finished_while_closure_ran" } else { "get_waited_for_abandoned_closure" }.to_string()).or_insert(0) += 1;
                    match res {
                        Ok(c2) => {
                            // the closure owns the connection until it ends
                            c2.wait_unlocked().await;
                            next_serial += 1;
                            let judged = reported_before || !was_early;
                            if judged && marked.load(Ordering::SeqCst) {
                                // the get() returned after the closure had ended badly
                                let _ = bad.insert(m);
                                let _ = bad_fn.lock().unwrap().insert(m);
                                returned_bad = true;
                                *counters.entry("recycled_while_abandoned_closure_ran".into()).or_insert(0) += 1;
                            }
                            // a poisoned connection cannot be asked for its marker; only #m can be poisoned here
                            let m2 = if c2.is_poisoned() { Some(m) } else { c2.marker(next_serial).await.ok() };
                            match m2 {
                                Some(m2) => {
                                    if judged {
                                        check_handout(&c2, m2, &bad, &mut log, &mut viol);
                                    } else {
                                        log.push(format!("handed out #{} (while the closure was still running: not judged)", m2));
                                    }
                                    if marked.load(Ordering::SeqCst) {
                                        let _ = bad.insert(m);
                                        let _ = bad_fn.lock().unwrap().insert(m);
                                    }
                                    held.push((c2, m2));
                                }
                                None => viol.push(Violation { prop: "C15", oracle: "unusable_connection_issued", msg: format!("the connection handed out after #{} was returned with a running closure could not be used", m) }),
                            }
                        }
                        Err(e) => viol.push(Violation { prop: "C15", oracle: "pool_stopped_serving", msg: format!("get() after returning #{} with a running closure failed: {}", m, e) }),
                    }
                }
                Op::Break(i) => {
                    let m = held[i].1;
                    match (&held[i].0, &pool) {
                        (AnyConn::R2d2(_), AnyPool::R2d2(_, sh)) => {
                            let how = match rng.below(4) {
                                3 => {
                                    let _ = sh.panic_once.lock().unwrap().insert(m);
                                    "a connection whose next validity check panics"
                                }
                                0 => {
                                    let _ = sh.broken.lock().unwrap().insert(m);
                                    "broken"
                                }
                                1 => {
                                    let _ = sh.invalid.lock().unwrap().insert(m);
                                    "invalid"
                                }
                                _ => {
                                    let _ = sh.invalid_once.lock().unwrap().insert(m);
                                    "failing its next validity check only"
                                }
                            };
                            let _ = bad.insert(m);
                            log.push(format!("marked #{} {}", m, how));
                        }
                        (AnyConn::Sqlite(c), _) => {
                            // drive the connection into a state in which every statement fails (SQLITE_INTERRUPT):
                            // a running statement is leaked, then the connection is interrupted - the flag stays
                            // set for as long as a statement is active, i.e. for the rest of its life
                            if !bad.contains(&m) {
                                let r = guarded(c.interact(|conn| -> Result<bool, deadpool_sqlite::rusqlite::Error> {
                                    let mut stmt = conn.prepare("WITH RECURSIVE c(x) AS (SELECT 1 UNION ALL SELECT x + 1 FROM c) SELECT x FROM c")?;
                                    let mut rows = stmt.query([])?;
                                    let _ = rows.next()?;
                                    std::mem::forget(rows);
                                    std::mem::forget(stmt);
                                    conn.get_interrupt_handle().interrupt();
                                    // broken for good?
                                    Ok(conn.query_row("SELECT 1", [], |r| r.get::<_, i64>(0)).is_err())
                                }))
                                .await;
                                if matches!(r, Ok(Ok(Ok(true)))) {
                                    let _ = bad.insert(m);
                                    log.push(format!("#{} fails every statement from now on (interrupted with a statement still running)", m));
                                    *counters.entry("sqlite_connections_broken".into()).or_insert(0) += 1;
                                }
                            }
                        }
                        (AnyConn::Diesel(c), _) if rng.chance(1, 3) => {
                            // the transaction manager in its error state: a transaction is begun through diesel,
                            // rolled back behind its back, and diesel's own rollback then fails
                            if !bad.contains(&m) {
                                let r = guarded(c.interact(|c| {
                                    use diesel::connection::{AnsiTransactionManager, TransactionManager};
                                    use diesel::RunQueryDsl;
                                    AnsiTransactionManager::begin_transaction(c)?;
                                    let _ = diesel::sql_query("ROLLBACK").execute(c)?;
                                    let _ = AnsiTransactionManager::rollback_transaction(c);
                                    Ok::<bool, diesel::result::Error>(AnsiTransactionManager::is_broken_transaction_manager(c))
                                }))
                                .await;
                                if matches!(r, Ok(Ok(Ok(true)))) {
                                    let _ = bad.insert(m);
                                    log.push(format!("#{}: transaction manager driven into its error state", m));
                                    *counters.entry("diesel_txn_manager_in_error".into()).or_insert(0) += 1;
                                }
                            }
                        }
                        (AnyConn::Diesel(_), _) if diesel_method == 4 && rng.chance(1, 2) => {
                            // only the scripted check function knows that this connection is bad
                            let _ = bad_fn.lock().unwrap().insert(m);
                            let _ = bad.insert(m);
                            log.push(format!("#{}: the custom check function will report it (nothing else is wrong with it)", m));
                            *counters.entry("diesel_bad_by_custom_function_only".into()).or_insert(0) += 1;
                        }
                        (AnyConn::Diesel(c), _) => {
                            if !bad.contains(&m) {
                                let r = guarded(c.interact(|c| {
                                    use diesel::connection::{AnsiTransactionManager, TransactionManager};
                                    AnsiTransactionManager::begin_transaction(c)
                                }))
                                .await;
                                if matches!(r, Ok(Ok(Ok(())))) {
                                    let _ = bad.insert(m);
                                    log.push(format!("left a transaction open on #{}", m));
                                }
                            }
                            // scripted check function: report it as bad as well
                            if diesel_method == 4 {
                                let _ = bad_fn.lock().unwrap().insert(m);
                                let _ = bad.insert(m);
                            }
                        }
                        _ => {}
                    }
                }
                Op::Return(i) => {
                    let (c, m) = held.swap_remove(i);
                    if bad.contains(&m) {
                        returned_bad = true;
                    }
                    if every_used_is_bad {
                        let _ = bad.insert(m);
                    }
                    log.push(format!("returned #{}", m));
                    drop(c);
                }
            }
        }
        // ---- back to rest, then the full capacity must be served with healthy connections
        for (c, m) in held.drain(..) {
            if bad.contains(&m) {
                returned_bad = true;
            }
            if every_used_is_bad {
                let _ = bad.insert(m);
            }
            drop(c);
        }
        if viol.is_empty() {
            let mut probe = Vec::new();
            for k in 0..max_size {
                match pool.get().await {
                    Ok(c) => {
                        next_serial += 1;
                        match c.marker(next_serial).await {
                            Ok(m) => {
                                check_handout(&c, m, &bad, &mut log, &mut viol);
                                if let Err(e) = c.use_ok().await {
                                    viol.push(Violation { prop: "C15", oracle: "unusable_connection_issued", msg: format!("connection #{} from the capacity probe is unusable: {}", m, e) });
                                }
                                probe.push(c);
                            }
                            Err(e) => viol.push(Violation { prop: "C15", oracle: "unusable_connection_issued", msg: format!("a connection from the capacity probe could not be used: {}", e) }),
                        }
                    }
                    Err(e) => {
                        viol.push(Violation { prop: "C15", oracle: "capacity_lost", msg: format!("with everything returned, get {} of max_size {} failed: {}", k + 1, max_size, e) });
                        break;
                    }
                }
            }
            let st = pool.status();
            if viol.is_empty() && st.size > max_size {
                viol.push(Violation { prop: "C15", oracle: "capacity_exceeded", msg: format!("status {:?} with max_size {}", st, max_size) });
            }
            drop(probe);
            if returned_bad {
                nontrivial = true;
            }
        }
        drop(pool);
    });
    rt.shutdown_timeout(Duration::from_secs(5));
    let mut h = Hasher::default();
    h.str(&config_desc);
    for l in &log {
        h.str(l);
    }
    Case {
        violations: viol,
        hash: h.0,
        nontrivial,
        events: log.len() as u64,
        counters,
        desc: Json::obj()
            .with("engine", match backend {
                Backend::Sqlite => "c15_sqlite",
                Backend::R2d2 => "c15_r2d2",
                Backend::Diesel => "c15_diesel",
            })
            .with("seed", seed)
            .with("index", idx)
            .with("config", config_desc.clone())
            .with("log", log.iter().map(|s| Json::from(s.as_str())).collect::<Vec<_>>()),
        sig_tail: String::new(),
    }
}
