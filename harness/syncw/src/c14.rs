//! C14: SyncWrapper keeps blocking work and destruction off the async threads.

use std::collections::{BTreeMap, HashSet};
use std::panic::{catch_unwind, AssertUnwindSafe};
use std::sync::atomic::{AtomicBool, AtomicU64, Ordering};
use std::sync::{Arc, Condvar, Mutex};
use std::thread::ThreadId;
use std::time::Duration;

use deadpool_sync::{InteractError, SyncWrapper};
use vh_common::{Hasher, InjectedPanic, Json, Rng, Violation};

use crate::Case;

#[derive(Clone, Debug)]
enum Ev {
    Ctor { thread: ThreadId, blocking_ok: bool },
    Begin { op: usize, thread: ThreadId, seq: u64, blocking_ok: bool },
    End { op: usize, seq: u64 },
    Destruct { thread: ThreadId, seq: u64, blocking_ok: bool },
    DropBegin { seq: u64 },
    DropEnd { seq: u64 },
}

#[derive(Default)]
struct Log {
    seq: AtomicU64,
    events: Mutex<Vec<Ev>>,
    async_threads: Mutex<HashSet<ThreadId>>,
}
impl Log {
    fn next(&self) -> u64 {
        self.seq.fetch_add(1, Ordering::SeqCst)
    }
    fn push(&self, e: Ev) {
        self.events.lock().unwrap().push(e);
    }
    fn note_async(&self) {
        let _ = self.async_threads.lock().unwrap().insert(std::thread::current().id());
    }
}

/// Is blocking allowed on the current thread? (tokio refuses `block_on` on its async workers)
fn blocking_allowed() -> bool {
    // the threads of async-std's executor poll tasks; its blocking work runs on "blocking-N" threads
    if std::thread::current().name().map(|n| n.starts_with("async-std/runtime")).unwrap_or(false) {
        return false;
    }
    match tokio::runtime::Handle::try_current() {
        Ok(h) => catch_unwind(AssertUnwindSafe(|| h.block_on(async {}))).is_ok(),
        Err(_) => true,
    }
}

struct Val {
    id: u64,
    log: Arc<Log>,
}
impl std::fmt::Debug for Val {
    fn fmt(&self, f: &mut std::fmt::Formatter<'_>) -> std::fmt::Result {
        write!(f, "Val({})", self.id)
    }
}
impl Drop for Val {
    fn drop(&mut self) {
        let seq = self.log.next();
        self.log.push(Ev::Destruct { thread: std::thread::current().id(), seq, blocking_ok: blocking_allowed() });
    }
}

#[derive(Default)]
struct Gate {
    open: Mutex<bool>,
    cv: Condvar,
}
impl Gate {
    fn wait(&self) {
        let mut g = self.open.lock().unwrap();
        let deadline = std::time::Instant::now() + Duration::from_secs(10);
        while !*g {
            let now = std::time::Instant::now();
            if now >= deadline {
                return;
            }
            g = self.cv.wait_timeout(g, deadline - now).unwrap().0;
        }
    }
    fn release(&self) {
        *self.open.lock().unwrap() = true;
        self.cv.notify_all();
    }
}

#[derive(Clone, Copy, Debug, PartialEq, Eq)]
enum Op {
    Complete,
    Panic,
    CancelRunning,
    /// like CancelRunning, but the closure panics once it is released
    CancelRunningPanic,
    CancelQueued,
    Pause,
    /// the task blocks in place: tokio hands the worker's duties to a thread of the blocking pool, i.e. a
    /// thread that ran closures before polls tasks from now on
    BlockInPlace,
}

/// Drops the wrapper, recording the thread and the sequence numbers around the drop.
struct TimedDrop {
    w: Option<Arc<SyncWrapper<Val>>>,
    log: Arc<Log>,
    dropper: Arc<Mutex<Option<ThreadId>>>,
}
impl Drop for TimedDrop {
    fn drop(&mut self) {
        *self.dropper.lock().unwrap() = Some(std::thread::current().id());
        let sq = self.log.next();
        self.log.push(Ev::DropBegin { seq: sq });
        drop(self.w.take());
        let sq = self.log.next();
        self.log.push(Ev::DropEnd { seq: sq });
    }
}

struct EndGuard {
    log: Arc<Log>,
    op: usize,
}
impl Drop for EndGuard {
    fn drop(&mut self) {
        let seq = self.log.next();
        self.log.push(Ev::End { op: self.op, seq });
    }
}

pub fn history(seed: u64, idx: u64) -> Case {
    let mut rng = Rng::derive(seed, 0xC14, idx);
    let mb = rng.range(1, 4) as usize;
    let n_ops = rng.usize_below(6);
    let ops: Vec<Op> = (0..n_ops)
        .map(|_| match rng.below(11) {
            0..=3 => Op::Complete,
            4..=5 => Op::Panic,
            6 => Op::CancelRunning,
            7 => Op::CancelRunningPanic,
            8 => Op::CancelQueued,
            9 => Op::BlockInPlace,
            _ => Op::Pause,
        })
        .collect();
    let release_before_drop = rng.chance(1, 3);
    let drop_by_unwinding = rng.chance(1, 3);
    // the wrapper's own runtime (where it sends its blocking work); the tasks are always polled by tokio
    let runtime = if rng.chance(1, 3) { deadpool::Runtime::AsyncStd1 } else { deadpool::Runtime::Tokio1 };
    let workers = if rng.chance(1, 3) { 1 } else { 2 };
    let desc_script = format!("runtime={:?} workers={} max_blocking_threads={} ops={:?} release_gates_before_drop={} dropped_by_unwinding={}", runtime, workers, mb, ops, release_before_drop, drop_by_unwinding);
    let log = Arc::new(Log::default());
    let mut viol: Vec<Violation> = Vec::new();
    let mut v = |oracle: &'static str, msg: String| viol.push(Violation { prop: "C14", oracle, msg });
    let rt = tokio::runtime::Builder::new_multi_thread().worker_threads(workers).max_blocking_threads(mb).enable_time().build().expect("runtime");
    let results: Arc<Mutex<Vec<String>>> = Arc::new(Mutex::new(Vec::new()));
    let dropper: Arc<Mutex<Option<ThreadId>>> = Arc::new(Mutex::new(None));
    let harness_notes: Arc<Mutex<Vec<String>>> = Arc::new(Mutex::new(Vec::new()));
    let poisoned_expected = Arc::new(AtomicBool::new(false));
    {
        let (log, results, dropper, notes, ops, poisoned_expected) = (log.clone(), results.clone(), dropper.clone(), harness_notes.clone(), ops.clone(), poisoned_expected.clone());
        let main = async move {
            log.note_async();
            let l2 = log.clone();
            let w = SyncWrapper::new(runtime, move || {
                l2.push(Ev::Ctor { thread: std::thread::current().id(), blocking_ok: blocking_allowed() });
                Ok::<_, ()>(Val { id: 7, log: l2.clone() })
            })
            .await
            .expect("ctor");
            log.note_async();
            let w = Arc::new(w);
            let mut gates: Vec<Arc<Gate>> = Vec::new();
            for (i, op) in ops.iter().enumerate() {
                log.note_async();
                match op {
                    Op::Complete => {
                        // parked closures hold the value's mutex / the blocking threads: let them finish first
                        for g in &gates {
                            g.release();
                        }
                        let l = log.clone();
                        let r = w
                            .interact(move |v| {
                                let seq = l.next();
                                l.push(Ev::Begin { op: i, thread: std::thread::current().id(), seq, blocking_ok: blocking_allowed() });
                                let _g = EndGuard { log: l.clone(), op: i };
                                v.id * 2 + i as u64
                            })
                            .await;
                        log.note_async();
                        let s = match r {
                            Ok(x) if x == 14 + i as u64 => "ok".to_string(),
                            Ok(x) => format!("wrong_value:{}", x),
                            Err(InteractError::Panic(_)) => "panic".to_string(),
                            Err(InteractError::Aborted) => "aborted".to_string(),
                        };
                        results.lock().unwrap().push(format!("{}:complete:{}:poisoned={}", i, s, w.is_mutex_poisoned()));
                    }
                    Op::Panic => {
                        for g in &gates {
                            g.release();
                        }
                        // awaited in a task of its own: if the panic comes out of interact().await itself
                        // instead of being reported, only that task dies
                        let (w2, l) = (w.clone(), log.clone());
                        let jh = tokio::spawn(async move {
                            l.note_async();
                            let l2 = l.clone();
                            let r = w2
                                .interact(move |_v| {
                                    let seq = l2.next();
                                    l2.push(Ev::Begin { op: i, thread: std::thread::current().id(), seq, blocking_ok: blocking_allowed() });
                                    let _g = EndGuard { log: l2.clone(), op: i };
                                    std::panic::panic_any(InjectedPanic(i as u32));
                                })
                                .await;
                            l.note_async();
                            r
                        })
                        .await;
                        log.note_async();
                        let s = match jh {
                            Ok(Ok(())) => "ok",
                            Ok(Err(InteractError::Panic(_))) => "panic",
                            Ok(Err(InteractError::Aborted)) => "aborted",
                            Err(e) if e.is_panic() => "the_awaiting_task_panicked",
                            Err(_) => "task_cancelled",
                        };
                        poisoned_expected.store(true, Ordering::SeqCst);
                        results.lock().unwrap().push(format!("{}:panic:{}:poisoned={}", i, s, w.is_mutex_poisoned()));
                        // "from then on": also while later closures run into the poisoned mutex (and hold it for a
                        // moment while they panic). A few closures are sent in and the flag is sampled meanwhile.
                        let mut hs = Vec::new();
                        for _ in 0..3 {
                            let w2 = w.clone();
                            hs.push(tokio::spawn(async move {
                                let _ = w2.interact(|_| ()).await;
                            }));
                        }
                        let mut always = true;
                        let mut samples = 0u32;
                        while samples < 3000 && hs.iter().any(|h| !h.is_finished()) {
                            always &= w.is_mutex_poisoned();
                            samples += 1;
                        }
                        for h in hs {
                            let _ = h.await;
                        }
                        log.note_async();
                        results.lock().unwrap().push(format!("{}:poison_probe:{}_samples:poisoned={}", i, if samples > 0 { "some" } else { "no" }, always));
                    }
                    Op::CancelRunning | Op::CancelRunningPanic => {
                        let panics = *op == Op::CancelRunningPanic;
                        let gate = Arc::new(Gate::default());
                        gates.push(gate.clone());
                        let started = Arc::new(AtomicBool::new(false));
                        let gate2 = gate.clone();
                        let disarm = Arc::new(AtomicBool::new(false));
                        let disarm2 = disarm.clone();
                        let (w2, l, st) = (w.clone(), log.clone(), started.clone());
                        let h = tokio::spawn(async move {
                            l.note_async();
                            let l3 = l.clone();
                            let _ = w2
                                .interact(move |_v| {
                                    let seq = l3.next();
                                    l3.push(Ev::Begin { op: i, thread: std::thread::current().id(), seq, blocking_ok: blocking_allowed() });
                                    let _g = EndGuard { log: l3.clone(), op: i };
                                    st.store(true, Ordering::SeqCst);
                                    gate.wait();
                                    if panics && !disarm2.load(Ordering::SeqCst) {
                                        std::panic::panic_any(InjectedPanic(i as u32));
                                    }
                                })
                                .await;
                        });
                        // wait (bounded) until the closure runs, then cancel the interact future
                        for _ in 0..40 {
                            if started.load(Ordering::SeqCst) {
                                break;
                            }
                            tokio::time::sleep(Duration::from_micros(250)).await;
                        }
                        h.abort();
                        let _ = h.await;
                        log.note_async();
                        if panics && started.load(Ordering::SeqCst) {
                            // let it panic now and wait until it is over: a later closure on the same
                            // value can only start once the panicking one has let go of the mutex
                            gate2.release();
                            // barrier that does not go through interact(): the closure holds the value's mutex
                            // since before `started`; once try_lock() stops saying WouldBlock it has let go
                            for _ in 0..20_000 {
                                let busy = matches!(w.try_lock(), Err(std::sync::TryLockError::WouldBlock));
                                if !busy {
                                    break;
                                }
                                tokio::time::sleep(Duration::from_micros(200)).await;
                            }
                            log.note_async();
                            results.lock().unwrap().push(format!("{}:panic:panic:poisoned={}", i, w.is_mutex_poisoned()));
                        } else {
                            // the closure has not started (yet): it must not panic at some unknown later time
                            disarm.store(true, Ordering::SeqCst);
                            results.lock().unwrap().push(format!("{}:cancel_running:started={}", i, started.load(Ordering::SeqCst)));
                            if started.load(Ordering::SeqCst) {
                                // the abandoned closure sits on its closed gate and owns the value: looking at the
                                // wrapper (Debug, as a log line or an error message would) is not blocking work and
                                // must not wait for it. Formatted on a thread of its own so that a formatter that
                                // does wait cannot wedge the history; it ends when the gates open.
                                let w3 = w.clone();
                                let (tx, rx) = std::sync::mpsc::channel();
                                drop(std::thread::spawn(move || {
                                    let s = format!("{:?}", w3);
                                    let _ = tx.send(s.len());
                                }));
                                let t0 = std::time::Instant::now();
                                let mut got = None;
                                while got.is_none() && t0.elapsed() < Duration::from_secs(3) {
                                    got = rx.try_recv().ok();
                                    if got.is_none() {
                                        tokio::time::sleep(Duration::from_micros(200)).await;
                                    }
                                }
                                log.note_async();
                                results.lock().unwrap().push(format!("{}:debug_while_running:{}", i, if got.is_some() { "returned" } else { "blocked" }));
                            }
                        }
                    }
                    Op::CancelQueued => {
                        // saturate the blocking pool, queue an interact behind it, cancel it
                        let sat = Arc::new(Gate::default());
                        gates.push(sat.clone());
                        for _ in 0..mb {
                            let s = sat.clone();
                            drop(tokio::task::spawn_blocking(move || s.wait()));
                        }
                        let (w2, l) = (w.clone(), log.clone());
                        let h = tokio::spawn(async move {
                            l.note_async();
                            let l3 = l.clone();
                            let _ = w2
                                .interact(move |_v| {
                                    let seq = l3.next();
                                    l3.push(Ev::Begin { op: i, thread: std::thread::current().id(), seq, blocking_ok: blocking_allowed() });
                                    let _g = EndGuard { log: l3.clone(), op: i };
                                })
                                .await;
                        });
                        tokio::time::sleep(Duration::from_micros(300)).await;
                        h.abort();
                        let _ = h.await;
                        log.note_async();
                        results.lock().unwrap().push(format!("{}:cancel_queued", i));
                    }
                    Op::Pause => {
                        tokio::time::sleep(Duration::from_micros(200)).await;
                    }
                    Op::BlockInPlace => {
                        // parked closures occupy the blocking pool, and block_in_place needs a thread of that pool
                        // to take over the worker: let them finish first
                        for g in &gates {
                            g.release();
                        }
                        // give the blocking threads the time to go idle, so that tokio reuses one of them
                        tokio::time::sleep(Duration::from_millis(2)).await;
                        tokio::task::block_in_place(|| std::thread::sleep(Duration::from_millis(3)));
                        // the rest of this poll still runs on the old thread; after the next suspension the task is
                        // picked up by whichever thread is a worker now
                        tokio::task::yield_now().await;
                        log.note_async();
                        // a second, healthy wrapper used from here (the first one may be poisoned by now, its
                        // closures would not even start)
                        let l2 = log.clone();
                        let probe = SyncWrapper::new(runtime, move || {
                            l2.push(Ev::Ctor { thread: std::thread::current().id(), blocking_ok: blocking_allowed() });
                            Ok::<_, ()>(0u8)
                        })
                        .await;
                        log.note_async();
                        if let Ok(probe) = probe {
                            let l = log.clone();
                            let _ = probe
                                .interact(move |_| {
                                    let seq = l.next();
                                    l.push(Ev::Begin { op: i, thread: std::thread::current().id(), seq, blocking_ok: blocking_allowed() });
                                    let _g = EndGuard { log: l.clone(), op: i };
                                })
                                .await;
                            log.note_async();
                        }
                    }
                }
            }
            if release_before_drop {
                for g in &gates {
                    g.release();
                }
            }
            log.note_async();
            if Arc::strong_count(&w) != 1 {
                notes.lock().unwrap().push(format!("harness: {} references to the wrapper at drop time", Arc::strong_count(&w)));
            }
            let poisoned_now = w.is_mutex_poisoned();
            results.lock().unwrap().push(format!("final:poisoned={}", poisoned_now));
            // SyncWrapper::drop runs on an async worker thread: either in place, or while the task that owns
            // the wrapper is unwinding from a panic
            let td = TimedDrop { w: Some(w), log: log.clone(), dropper: dropper.clone() };
            if drop_by_unwinding {
                let l = log.clone();
                let h = tokio::spawn(async move {
                    let _td = td;
                    l.note_async();
                    std::panic::panic_any(InjectedPanic(99));
                });
                let _ = h.await;
            } else {
                drop(td);
            }
            tokio::time::sleep(Duration::from_micros(300)).await;
            for g in &gates {
                g.release();
            }
            // flush the blocking pool (FIFO): everything queued before has started afterwards
            for _ in 0..(2 * mb + 2) {
                let _ = runtime.spawn_blocking(|| ()).await;
            }
            // bounded wait for the destructor
            for _ in 0..20_000 {
                if log.events.lock().unwrap().iter().any(|e| matches!(e, Ev::Destruct { .. })) {
                    break;
                }
                tokio::time::sleep(Duration::from_micros(500)).await;
            }
        };
        rt.block_on(async move {
            let _ = tokio::spawn(main).await;
        });
    }
    rt.shutdown_timeout(Duration::from_secs(5));
    // ---------------------------------------------------------------- oracles
    let events = log.events.lock().unwrap().clone();
    let async_threads = log.async_threads.lock().unwrap().clone();
    let dropper = *dropper.lock().unwrap();
    let mut destructs = Vec::new();
    // After a block_in_place the threads change roles (a thread of the blocking pool becomes a worker, the old
    // worker may end up as a blocking thread): "has polled a task at some time" says nothing any more about
    // what a thread is now. The probe made at the moment of the event (may this thread block?) still does.
    let roles_change = ops.contains(&Op::BlockInPlace);
    let async_threads: HashSet<ThreadId> = if roles_change { HashSet::new() } else { async_threads };
    for e in &events {
        match e {
            Ev::Ctor { thread, blocking_ok } => {
                if async_threads.contains(thread) || !blocking_ok {
                    v("ctor_on_async_thread", format!("the constructor closure ran on {:?}, a thread that polls async tasks (blocking allowed: {})", thread, blocking_ok));
                }
            }
            Ev::Begin { op, thread, blocking_ok, .. } => {
                if async_threads.contains(thread) || !blocking_ok {
                    v("closure_on_async_thread", format!("the interact closure of op {} ran on {:?}, a thread that polls async tasks (blocking allowed: {})", op, thread, blocking_ok));
                }
            }
            Ev::Destruct { thread, seq, blocking_ok } => {
                destructs.push(*seq);
                if async_threads.contains(thread) || !blocking_ok || Some(*thread) == dropper {
                    v(
                        "destructor_on_async_thread",
                        format!("the wrapped value was destroyed on {:?} (dropper thread {:?}, polls async tasks: {}, blocking allowed: {})", thread, dropper, async_threads.contains(thread), blocking_ok),
                    );
                }
            }
            Ev::End { .. } | Ev::DropBegin { .. } | Ev::DropEnd { .. } => {}
        }
    }
    // dropping the wrapper must not wait for a closure that is still running: the closures of
    // cancelled-while-running interactions are parked on gates which open only after drop() returned
    let drop_begin = events.iter().find_map(|e| if let Ev::DropBegin { seq } = e { Some(*seq) } else { None });
    let drop_end = events.iter().find_map(|e| if let Ev::DropEnd { seq } = e { Some(*seq) } else { None });
    if let (Some(db), Some(de), false) = (drop_begin, drop_end, release_before_drop) {
        for e in &events {
            if let Ev::Begin { op, seq, .. } = e {
                if !matches!(ops.get(*op), Some(Op::CancelRunning) | Some(Op::CancelRunningPanic)) {
                    continue;
                }
                // a later Complete / Panic operation opens all gates: only closures after the last
                // such operation are still parked when the wrapper is dropped
                let last_release = ops.iter().rposition(|o| matches!(o, Op::Complete | Op::Panic | Op::BlockInPlace));
                if last_release.map(|l| *op < l).unwrap_or(false) {
                    continue;
                }
                let end = events.iter().find_map(|x| match x {
                    Ev::End { op: o, seq } if o == op => Some(*seq),
                    _ => None,
                });
                if *seq < db && end.map(|es| es > db && es < de).unwrap_or(false) {
                    v("drop_blocked_async_thread", format!("dropping the wrapper (seq {}..{}) returned only after the still-running closure of op {} had ended (seq {:?}): the dropping thread waited for it", db, de, op, end));
                }
            }
        }
    }
    if destructs.len() != 1 {
        v("destructor_count", format!("the wrapped value's destructor ran {} times (script: {})", destructs.len(), desc_script));
    }
    if let Some(dseq) = destructs.first().copied() {
        for e in &events {
            if let Ev::Begin { op, seq, .. } = e {
                let end = events.iter().find_map(|x| match x {
                    Ev::End { op: o, seq } if o == op => Some(*seq),
                    _ => None,
                });
                match end {
                    Some(es) if es < dseq => {}
                    Some(es) => v("destroyed_while_in_use", format!("closure of op {} ended at seq {} but the value was destroyed at seq {}", op, es, dseq)),
                    None => v("destroyed_while_in_use", format!("closure of op {} never ended but the value was destroyed at seq {}", op, dseq)),
                }
                if *seq > dseq {
                    v("used_after_destroy", format!("closure of op {} started at seq {} after the value was destroyed at seq {}", op, seq, dseq));
                }
            }
        }
    }
    let results = results.lock().unwrap().clone();
    let mut poisoned = false;
    for r in &results {
        let f: Vec<&str> = r.split(':').collect();
        match f.get(1).copied() {
            Some("complete") => {
                let ok = f[2] == "ok";
                if !poisoned && !ok {
                    v("interact_result", format!("a completing closure on a healthy wrapper returned {}", r));
                }
            }
            Some("debug_while_running") => {
                if f[2] != "returned" {
                    v("debug_blocked_async_thread", format!("formatting the wrapper with {{:?}} while an abandoned closure was parked on it had not returned after 3 s ({})", r));
                }
            }
            Some("panic") => {
                if f[2] != "panic" {
                    v("panic_not_reported", format!("a panicking closure was reported as {}", r));
                }
                poisoned = true;
            }
            _ => {}
        }
        if let Some(p) = r.split("poisoned=").nth(1) {
            if (p == "true") != poisoned {
                v("is_mutex_poisoned", format!("is_mutex_poisoned() is {} after {} (a closure has panicked: {})", p, r, poisoned));
            }
        }
    }
    for n in harness_notes.lock().unwrap().iter() {
        v("harness", n.clone());
    }
    let mut h = Hasher::default();
    h.str(&desc_script);
    for r in &results {
        h.str(r);
    }
    let nontrivial = ops.iter().any(|o| matches!(o, Op::Panic | Op::CancelRunning | Op::CancelRunningPanic | Op::CancelQueued));
    let mut counters = BTreeMap::new();
    for o in &ops {
        *counters.entry(format!("op:{:?}", o)).or_insert(0) += 1;
    }
    let still_running_at_drop = !release_before_drop && ops.contains(&Op::CancelRunning);
    if still_running_at_drop {
        *counters.entry("dropped_while_closure_running".to_string()).or_insert(0) += 1;
    }
    *counters.entry("distinct_blocking_threads_seen".to_string()).or_insert(0) += events
        .iter()
        .filter_map(|e| match e {
            Ev::Begin { thread, .. } => Some(*thread),
            _ => None,
        })
        .collect::<HashSet<_>>()
        .len() as u64;
    Case {
        violations: viol,
        hash: h.0,
        nontrivial,
        events: events.len() as u64 + results.len() as u64,
        counters,
        desc: Json::obj()
            .with("engine", "c14")
            .with("seed", seed)
            .with("index", idx)
            .with("script", desc_script)
            .with("results", results.iter().map(|s| Json::from(s.as_str())).collect::<Vec<_>>())
            .with("events", events.iter().map(|e| Json::from(format!("{:?}", e))).collect::<Vec<_>>()),
        sig_tail: String::new(),
    }
}

// ------------------------------------------------------------------ drop racing the end of an abandoned closure

struct RaceVal {
    dropped_on: Arc<Mutex<Option<ThreadId>>>,
}
impl Drop for RaceVal {
    fn drop(&mut self) {
        *self.dropped_on.lock().unwrap() = Some(std::thread::current().id());
    }
}

/// Many lean trials of one schedule: an interaction is abandoned while its closure runs, the closure ends after
/// a random few microseconds, and the wrapper is dropped at about the same time on an async worker thread.
/// Whatever the order, the value must not be destroyed on the thread that dropped the wrapper.
pub fn drop_race(seed: u64, idx: u64) -> Case {
    let mut rng = Rng::derive(seed, 0xC14D, idx);
    let trials = 400usize;
    let rt = tokio::runtime::Builder::new_multi_thread().worker_threads(2).max_blocking_threads(4).enable_time().build().expect("runtime");
    let mut viol: Vec<Violation> = Vec::new();
    let mut counters: BTreeMap<String, u64> = BTreeMap::new();
    // The closure's running time follows a feedback loop: whenever the closure ended before the wrapper was
    // dropped it is made a little longer, otherwise a little shorter, so that the trials stay at the point where
    // the two events coincide. `delays` only holds the jitter and the drop delay of each trial.
    let delays: Vec<(u64, u64)> = (0..trials).map(|_| (rng.below(600), rng.below(3_000))).collect();
    let d2 = delays.clone();
    let out = rt.block_on(async move {
        tokio::spawn(async move {
            let mut bad: Vec<String> = Vec::new();
            let mut never = 0u64;
            let mut closure_first = 0u64;
            let mut centre: i64 = 15_000;
            for (k, (jitter, drop_ns)) in d2.into_iter().enumerate() {
                let closure_ns = (centre + jitter as i64 - 300).max(0) as u64;
                let dropped_on = Arc::new(Mutex::new(None));
                let d = dropped_on.clone();
                let w = match SyncWrapper::new(deadpool::Runtime::Tokio1, move || Ok::<_, ()>(RaceVal { dropped_on: d })).await {
                    Ok(w) => Arc::new(w),
                    Err(_) => continue,
                };
                let started = Arc::new(AtomicBool::new(false));
                let ended = Arc::new(AtomicBool::new(false));
                let (w2, st, en) = (w.clone(), started.clone(), ended.clone());
                let h = tokio::spawn(async move {
                    let _ = w2
                        .interact(move |_| {
                            st.store(true, Ordering::SeqCst);
                            let t0 = std::time::Instant::now();
                            while (t0.elapsed().as_nanos() as u64) < closure_ns {
                                std::hint::spin_loop();
                            }
                            en.store(true, Ordering::SeqCst);
                        })
                        .await;
                });
                let t0 = std::time::Instant::now();
                while !started.load(Ordering::SeqCst) && t0.elapsed() < Duration::from_secs(5) {
                    tokio::task::yield_now().await;
                }
                h.abort();
                let _ = h.await;
                let t1 = std::time::Instant::now();
                while (t1.elapsed().as_nanos() as u64) < drop_ns {
                    std::hint::spin_loop();
                }
                if ended.load(Ordering::SeqCst) {
                    closure_first += 1;
                    centre += 120;
                } else {
                    centre = (centre - 120).max(0);
                }
                let me = std::thread::current().id();
                drop(w);
                // bounded wait for the destructor (it runs on a blocking thread)
                let t2 = std::time::Instant::now();
                let mut on = *dropped_on.lock().unwrap();
                while on.is_none() && t2.elapsed() < Duration::from_secs(5) {
                    tokio::task::yield_now().await;
                    on = *dropped_on.lock().unwrap();
                }
                match on {
                    None => never += 1,
                    Some(t) if t == me => bad.push(format!("trial {} (closure runs {} ns, drop after {} ns): destroyed on {:?}, the thread that dropped the wrapper", k, closure_ns, drop_ns, t)),
                    Some(_) => {}
                }
            }
            (bad, never, closure_first)
        })
        .await
    });
    rt.shutdown_timeout(Duration::from_secs(5));
    let (bad, never, closure_first) = out.unwrap_or((vec!["the trial task died".into()], 0, 0));
    let _ = counters.insert("drop_race_trials".into(), trials as u64);
    let _ = counters.insert("closure_ended_before_drop".into(), closure_first);
    if let Some(b) = bad.first() {
        viol.push(Violation { prop: "C14", oracle: "destructor_on_async_thread", msg: format!("{} of {} trials: {}", bad.len(), trials, b) });
    } else if never > 0 {
        viol.push(Violation { prop: "C14", oracle: "destructor_never_ran", msg: format!("in {} of {} trials the value was not destroyed within 5 s after the wrapper was dropped", never, trials) });
    }
    let mut h = Hasher::default();
    h.u64(seed);
    h.u64(idx);
    h.u64(closure_first);
    Case {
        violations: viol,
        hash: h.0,
        nontrivial: closure_first > 0 && closure_first < trials as u64,
        events: 3 * trials as u64,
        counters,
        desc: Json::obj().with("engine", "c14_drop_race").with("seed", seed).with("index", idx).with("trials", trials as u64).with("closure_ended_before_drop", closure_first).with("delays_ns", delays.iter().take(8).map(|(a, b)| Json::from(format!("{}/{}", a, b))).collect::<Vec<_>>()),
        sig_tail: String::new(),
    }
}

// ------------------------------------------------------------------ a wrapped value without bytes

/// Where and how often the zero-sized value below was destroyed (the type cannot carry a reference to a log).
static ZST_DROPS: Mutex<Vec<ThreadId>> = Mutex::new(Vec::new());
static ZST_LOCK: Mutex<()> = Mutex::new(());

/// A handle for something that lives elsewhere (a library with global state, say): no bytes, but a destructor.
struct Handle;
impl Drop for Handle {
    fn drop(&mut self) {
        ZST_DROPS.lock().unwrap_or_else(|e| e.into_inner()).push(std::thread::current().id());
    }
}

/// The wrapper's promises do not depend on what the value looks like: a zero-sized value with a destructor is
/// created, used and destroyed off the async threads as well. (One case at a time: the log is a static.)
pub fn zst_value(seed: u64, idx: u64) -> Case {
    let _one_at_a_time = ZST_LOCK.lock().unwrap_or_else(|e| e.into_inner());
    let mut rng = Rng::derive(seed, 0xC145, idx);
    let use_async_std = rng.chance(1, 3);
    let runtime = if use_async_std { deadpool::Runtime::AsyncStd1 } else { deadpool::Runtime::Tokio1 };
    let interactions = rng.below(3);
    let cancel_last = rng.chance(1, 3);
    let script = format!("zero-sized value: runtime={:?} interactions={} last_one_cancelled={}", runtime, interactions, cancel_last);
    ZST_DROPS.lock().unwrap_or_else(|e| e.into_inner()).clear();
    let rt = tokio::runtime::Builder::new_multi_thread().worker_threads(2).max_blocking_threads(3).enable_time().build().expect("runtime");
    let mut viol: Vec<Violation> = Vec::new();
    let facts = rt.block_on(async move {
        tokio::spawn(async move {
            let created_on = Arc::new(Mutex::new(None));
            let c2 = created_on.clone();
            let w = SyncWrapper::new(runtime, move || {
                *c2.lock().unwrap() = Some((std::thread::current().id(), blocking_allowed()));
                Ok::<_, ()>(Handle)
            })
            .await
            .expect("ctor");
            let w = Arc::new(w);
            let mut ran_on = Vec::new();
            for k in 0..interactions {
                let w2 = w.clone();
                let h = tokio::spawn(async move { w2.interact(|_| (std::thread::current().id(), blocking_allowed())).await });
                if cancel_last && k + 1 == interactions {
                    h.abort();
                    let _ = h.await;
                } else if let Ok(Ok(x)) = h.await {
                    ran_on.push(x);
                }
            }
            let me = std::thread::current().id();
            drop(w);
            // bounded wait for the destructor
            for _ in 0..20_000 {
                if !ZST_DROPS.lock().unwrap_or_else(|e| e.into_inner()).is_empty() {
                    break;
                }
                tokio::time::sleep(Duration::from_micros(250)).await;
            }
            tokio::time::sleep(Duration::from_millis(1)).await;
            let created = *created_on.lock().unwrap();
            (created, ran_on, me)
        })
        .await
    });
    rt.shutdown_timeout(Duration::from_secs(5));
    let drops = ZST_DROPS.lock().unwrap_or_else(|e| e.into_inner()).clone();
    match facts {
        Err(_) => viol.push(Violation { prop: "C14", oracle: "harness", msg: "the task died".into() }),
        Ok((created, ran_on, dropper)) => {
            if let Some((t, ok)) = created {
                if t == dropper || !ok {
                    viol.push(Violation { prop: "C14", oracle: "ctor_on_async_thread", msg: format!("the zero-sized value was created on {:?} (awaiting thread {:?}, blocking allowed: {})", t, dropper, ok) });
                }
            }
            for (t, ok) in &ran_on {
                if *t == dropper || !*ok {
                    viol.push(Violation { prop: "C14", oracle: "closure_on_async_thread", msg: format!("a closure on the zero-sized value ran on {:?} (awaiting thread {:?}, blocking allowed: {})", t, dropper, ok) });
                }
            }
            if drops.len() != 1 {
                viol.push(Violation { prop: "C14", oracle: "destructor_count", msg: format!("the zero-sized value's destructor ran {} times ({})", drops.len(), script) });
            } else if drops[0] == dropper {
                viol.push(Violation { prop: "C14", oracle: "destructor_on_async_thread", msg: format!("the zero-sized value was destroyed on {:?}, the thread that dropped the wrapper", dropper) });
            }
        }
    }
    let mut h = Hasher::default();
    h.str(&script);
    Case {
        violations: viol,
        hash: h.0,
        nontrivial: true,
        events: 2 + interactions,
        counters: BTreeMap::new(),
        desc: Json::obj().with("engine", "c14_zst").with("seed", seed).with("index", idx).with("script", script),
        sig_tail: String::new(),
    }
}
