#!/usr/bin/env python3
"""Writes seeded/<id>/meta.json from notes.md / confirm.txt and a results table (seeded/results.tsv)."""
import json, os, re, sys
root='/verif/seeded'
res={}
rt=os.path.join(root,'results.tsv')
if os.path.exists(rt):
    for l in open(rt):
        f=l.rstrip('\n').split('\t')
        if len(f)>=3: res.setdefault(f[0],[]).append({'check':f[1],'result':f[2],'witness':f[3] if len(f)>3 else ''})
for d in sorted(os.listdir(root)):
    p=os.path.join(root,d)
    if not os.path.isdir(p) or not re.match(r'^C\d+-\d+$', d): continue
    notes=open(os.path.join(p,'notes.md')).read() if os.path.exists(os.path.join(p,'notes.md')) else ''
    conf=open(os.path.join(p,'confirm.txt')).read() if os.path.exists(os.path.join(p,'confirm.txt')) else ''
    m=re.search(r'(?is)(what (it|is) need(s|ed)[^\n]*\n)(.*?)(\n#|\Z)',notes)
    needs=(m.group(4).strip()[:900] if m else notes[:900])
    demo=[f for f in os.listdir(p) if f.endswith('.rs')]
    meta={'id':d,'property':d.split('-')[0],'breaks':notes.split('\n',3)[0:3],'needs_to_manifest':needs,
          'demonstration':demo,'confirmed':conf.strip().split('\n'),'checks_run':res.get(d,[]),
          'origin':'independent sub-agent given only the property text and a scratch worktree'}
    json.dump(meta,open(os.path.join(p,'meta.json'),'w'),indent=1)
print('meta written for',len([d for d in os.listdir(root) if os.path.isdir(os.path.join(root,d))]),'seeds')
