#!/bin/bash
# usage: tools/ingest_seed.sh <PROP> <n> [cargo feature args for the demo, e.g. "--features rt_tokio_1"] [crate subdir]
# Confirms a seeded change in a scratch worktree (demo passes without, fails with; existing tests pass with),
# stores it under /verif/seeded/<PROP>-<n>/ and removes the scratch worktree.
set -u
P=$1; N=$2; FEAT=${3:-}; SUB=${4:-.}
SRC=${SEEDROOT:-/tmp/seed}/$P/seed_out/$N
DST=/verif/seeded/$P-$((N+${OFFSET:-0}))
W=/tmp/confirm/$P-$N
export CARGO_TARGET_DIR=/tmp/confirm-target CARGO_NET_OFFLINE=true
mkdir -p /tmp/confirm
git -C /repo worktree remove --force $W 2>/dev/null
git -C /repo worktree add -q --detach $W HEAD || exit 2
cp /repo/Cargo.lock $W/
demo=$(ls $SRC/*.rs | head -1)
mkdir -p $W/$SUB/tests; cp $demo $W/$SUB/tests/seed_demo.rs
cd $W/$SUB
a=$(timeout 600 cargo test --offline $FEAT --test seed_demo 2>&1 | grep -E "^test result" | tail -1)
if ! git -C $W apply --check $SRC/patch.diff 2>/dev/null; then echo "$P-$N: PATCH DOES NOT APPLY to current HEAD"; git -C /repo worktree remove --force $W; exit 1; fi
git -C $W apply $SRC/patch.diff
b=$(timeout 600 cargo test --offline $FEAT --test seed_demo 2>&1 | grep -E "^test result|panicked|timed out" | tail -2 | tr '\n' ' ')
rm -f $W/$SUB/tests/seed_demo.rs
c=$(timeout 900 cargo test --offline $FEAT 2>&1 | grep -E "^test result" | awk '{p+=$4; f+=$6} END {print "existing tests: passed=" p " failed=" f}')
echo "$P-$N: demo without patch: $a"
echo "$P-$N: demo with patch:    $b"
echo "$P-$N: $c"
mkdir -p $DST; cp $SRC/patch.diff $DST/patch.diff; cp $demo $DST/; cp $SRC/notes.md $DST/ 2>/dev/null
cat > $DST/confirm.txt <<EOT
confirmed in scratch worktree of /repo HEAD $(git -C /repo log --format=%h -1)
demo cmd: cargo test --offline $FEAT --test seed_demo   (demo copied to $SUB/tests/seed_demo.rs)
demo without patch: $a
demo with patch:    $b
$c (cargo test --offline $FEAT in $SUB)
EOT
cd /; git -C /repo worktree remove --force $W
