#!/usr/bin/env python3
"""usage: tools/selftest_seeded.py <table.tsv>:<verif commit>:<VERIF_SEED> ...
Appends the seeded/ section of selftest_results.txt from the tables tools/run_seeds.sh wrote
(<id> <check> <KILLED|survived|BROKEN> <first oracle> <violating cases>). Later tables override earlier ones."""
import sys, os, re
rows = {}
for arg in sys.argv[1:]:
    path, commit, seed = arg.split(":")
    for line in open(path):
        f = (line.rstrip("\n").split("\t") + ["", "", ""])[:5]
        if f[0]:
            rows[f[0]] = (f[1], f[2], f[3], f[4], commit, seed)
def key(i):
    m = re.match(r"C(\d+)-(\d+)", i)
    return (int(m.group(1)), int(m.group(2)))
out = open("/verif/selftest_results.txt", "a")
out.write("(from the seed regressions: each line names the /verif commit and VERIF_SEED of its run)\n")
have = sorted((d for d in os.listdir("/verif/seeded") if re.match(r"C\d+-\d+$", d)), key=key)
for i in have:
    if i not in rows:
        out.write("%s: not run\n" % i)
        continue
    chk, res, orc, mar, commit, seed = rows[i]
    extra = (" :: %s" % orc if orc else "") + (" (%s violating cases)" % mar if mar and mar != "?" else "")
    out.write("%s (%s): %s%s  [/verif %s, seed %s]\n" % (i, chk.split()[0], res, extra, commit, seed))
