#!/bin/bash
# usage: tools/run_seeds.sh <out.tsv> <seed id>...   (e.g. tools/run_seeds.sh /root/r3.tsv C01-5 C01-6)
# Runs every listed seeded change (seeded/<id>/patch.diff) against the quick check of its own property in a
# scratch copy (tools/mutate_scratch.sh) and appends "<id>\t<check>\t<KILLED|survived|BROKEN>\t<first oracle>" to <out.tsv>.
out=$1; shift
for id in "$@"; do
  p=${id%-*}
  line=$(${VERIF_SRC:-/verif}/tools/mutate_scratch.sh /verif/seeded/$id/patch.diff $p | tail -1)
  res=$(echo "$line" | sed -E 's/^MUTANT [^:]*: ([A-Za-z]+).*/\1/')
  wit=$(echo "$line" | sed -nE 's/.*e\.g\. *(\[[^]]*\] )?([a-z_0-9]+) ::.*/\2/p')
  mar=$(echo "$line" | sed -nE 's/.*, ([0-9?]+) violating cases\).*/\1/p')
  printf '%s\t%s quick\t%s\t%s\t%s\n' "$id" "$p" "$res" "$wit" "$mar" >> $out
done
