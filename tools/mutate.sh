#!/bin/bash
# usage: tools/mutate.sh <patch> <prop> [<prop>...]   (env: TIER=quick|thorough, ONLY=engine list)
# Applies <patch> to /repo, runs the given checks, restores /repo. Prints one line per check.
set -u
patch=$(realpath "$1"); shift
cd /verif
if ! git -C /repo diff --quiet; then echo "refusing: /repo has uncommitted changes"; exit 2; fi
if ! git -C /repo apply --check "$patch" 2>/dev/null; then echo "MUTANT $(basename $patch): does not apply"; exit 2; fi
git -C /repo apply "$patch"
trap 'git -C /repo checkout -- . ; git -C /repo clean -fdq -- src postgres redis sync sqlite r2d2 diesel runtime 2>/dev/null' EXIT
for p in "$@"; do
  out=$(VERIF_ONLY=${ONLY:-} ./vcheck run $p ${TIER:-quick} 2>&1); rc=$?
  nv=$(echo "$out" | grep -c '^VIOLATION ')
  first=$(echo "$out" | grep -A1 '^VIOLATION ' | sed -n 2p | cut -c1-220)
  if [ $rc -eq 1 ]; then echo "MUTANT $(basename $patch) $p: KILLED ($nv violations) e.g.$first";
  elif [ $rc -eq 0 ]; then echo "MUTANT $(basename $patch) $p: survived";
  else echo "MUTANT $(basename $patch) $p: BROKEN rc=$rc $(echo "$out" | tail -3 | tr '\n' ' ' | cut -c1-300)"; fi
done
