#!/bin/bash
# Sensitivity self-test (DESIGN.md 2.8): every monitor is shown to fire on a realistic break.
#  1. the tree just before each "fix:" commit (the defect is back) -> the property's quick check must report a violation
#  2. every patch in mutants/ and seeded/*/patch.diff -> the quick check of its property must report a violation
# Works on /repo itself (apply, run, restore), as the brief prescribes for seeded changes. Writes selftest_results.txt.
cd /verif
if ! git -C /repo diff --quiet; then echo "refusing: /repo has uncommitted changes"; exit 2; fi
out=selftest_results.txt; : > $out
restore() { git -C /repo checkout -q HEAD -- . ; }
trap restore EXIT
run_check() { # prop -> prints KILLED/survived + first oracle
  local o rc; o=$(timeout 900 ./vcheck run $1 quick 2>&1); rc=$?
  local first; first=$(echo "$o" | grep -A1 '^VIOLATION ' | sed -n 2p | cut -c3-160)
  if [ $rc -eq 1 ]; then echo "KILLED :: $first"; elif [ $rc -eq 0 ]; then echo "survived"; else echo "BROKEN rc=$rc"; fi
}
echo "## pre-fix trees" | tee -a $out
grep '^fixed:' known_findings.txt | while read -r _ prop commit rest; do
  p=${prop#property=}
  git -C /repo checkout -q ${commit}^ -- src postgres redis sync sqlite r2d2 diesel runtime 2>/dev/null
  echo "pre-fix $commit ($p): $(run_check $p)" | tee -a $out
  restore
done
echo "## mutants" | tee -a $out
for f in mutants/*.patch; do
  p=$(basename $f | cut -d- -f1)
  if git -C /repo apply --check $f 2>/dev/null; then git -C /repo apply $f; echo "$(basename $f) ($p): $(run_check $p)" | tee -a $out; restore; else echo "$(basename $f): does not apply to HEAD (kept for reference)" | tee -a $out; fi
done
echo "## seeded changes" | tee -a $out
for d in seeded/*/; do
  id=$(basename $d); p=${id%%-*}
  if git -C /repo apply --check $d/patch.diff 2>/dev/null; then git -C /repo apply $d/patch.diff; echo "$id ($p): $(run_check $p)" | tee -a $out; restore; else echo "$id: does not apply to HEAD" | tee -a $out; fi
done
