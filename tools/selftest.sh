#!/bin/bash
# Sensitivity self-test (DESIGN.md 2.8): every monitor is shown to fire on a realistic break.
#  1. the tree just before each "fix:" commit (the defect is back) -> the property's quick check must report a violation
#  2. every patch in mutants/ and seeded/*/patch.diff -> the quick check of its property must report a violation
# Never touches /repo: works on a scratch copy of /repo and /verif under /root/verif-scratch (removed at the end).
# Writes selftest_results.txt.
# VERIF_SRC=<dir> runs the checks of a snapshot of /verif (e.g. `git archive HEAD`) instead of the working copy.
# SECTIONS="prefix mutants" leaves the seeded/ section (300 runs, hours) out; tools/selftest_seeded.py then fills that
# section from the tables the seed regressions wrote (tools/run_seeds.sh), naming commit and VERIF_SEED of each.
SECTIONS=${SECTIONS:-prefix mutants seeded}
SRC=${VERIF_SRC:-/verif}
cd $SRC
S=/root/verif-scratch
out=/verif/selftest_results.txt; : > $out
export CARGO_TARGET_DIR=$S/target
sync_scratch() {
  mkdir -p $S
  # cargo decides by mtime: a file that rsync puts back (old mtime) or tar extracts (commit time) would
  # look "not newer than the build" and a stale artifact would be reused: touch whatever changed
  rsync -ai --delete --exclude target --exclude .git /repo/ $S/repo/ | awk '/^>f/ {print $2}' | while read -r f; do touch "$S/repo/$f"; done
  rsync -a --delete --exclude 'target*' --exclude .git --exclude replays --exclude evidence --exclude seeded --exclude selftest_results.txt $SRC/ $S/verif/
  sed -i "s#\"/repo#\"$S/repo#g" $S/verif/harness/*/Cargo.toml
}
run_check() { # prop -> prints KILLED/survived + first oracle
  local o rc; o=$(cd $S/verif && timeout 1200 ./vcheck run $1 quick 2>&1); rc=$?
  local first; first=$(echo "$o" | grep -A1 '^VIOLATION ' | sed -n 2p | cut -c3-170)
  if [ $rc -eq 1 ]; then echo "KILLED :: $first"; elif [ $rc -eq 0 ]; then echo "survived"; else echo "BROKEN rc=$rc"; fi
}
echo "# sensitivity self-test, /repo at $(git -C /repo log --format=%h -1), /verif at $(git -C /verif log --format=%h -1), VERIF_SEED=${VERIF_SEED:-1}" | tee -a $out
echo "## trees just before each fix commit (defect present again)" | tee -a $out
case " $SECTIONS " in *" prefix "*) ;; *) echo "(section not run)" | tee -a $out;; esac
grep '^fixed:' known_findings.txt | while read -r _ prop commit rest; do
  case " $SECTIONS " in *" prefix "*) ;; *) continue;; esac
  p=${prop#property=}
  sync_scratch
  git -C /repo archive ${commit}^ src postgres redis sync sqlite r2d2 diesel runtime | tar -x -m -C $S/repo
  echo "pre-fix $commit ($p): $(run_check $p)" | tee -a $out
done
echo "## mutants/" | tee -a $out
for f in mutants/*.patch; do
  case " $SECTIONS " in *" mutants "*) ;; *) continue;; esac
  p=$(basename $f | cut -d- -f1)
  sync_scratch
  if (cd $S/repo && patch -p1 -s --dry-run < $SRC/$f >/dev/null 2>&1); then (cd $S/repo && patch -p1 -s < $SRC/$f); echo "$(basename $f) ($p): $(run_check $p)" | tee -a $out; else echo "$(basename $f): does not apply to HEAD (its defect is covered by the pre-fix tree above)" | tee -a $out; fi
done
echo "## seeded/" | tee -a $out
for d in seeded/C*-*/; do
  case " $SECTIONS " in *" seeded "*) ;; *) continue;; esac
  id=$(basename $d); p=${id%%-*}
  sync_scratch
  if (cd $S/repo && patch -p1 -s --dry-run < $SRC/$d/patch.diff >/dev/null 2>&1); then (cd $S/repo && patch -p1 -s < $SRC/$d/patch.diff); echo "$id ($p): $(run_check $p)" | tee -a $out; else echo "$id: does not apply to HEAD" | tee -a $out; fi
done
rm -rf $S
