#!/usr/bin/env python3
"""Generates /verif/MANIFEST.json from the table below (single source of truth)."""
import json, os, subprocess
ROOT = os.path.dirname(os.path.dirname(os.path.abspath(__file__)))

def hook_commits():
    try:
        out = subprocess.check_output(["git", "-C", "/repo", "log", "--format=%H %s"], text=True)
    except Exception:
        return []
    return [l.split()[0] for l in out.splitlines() if " verif hooks" in l]

TL = "seeded task-level director hand-polling the real get() futures on a paused tokio clock"
CHECKS = {
 "C01": dict(level="exploration", sec="4 C01", tech="runtime monitoring: ground-truth occupancy monitor over random task-level histories, thread-level chaos/one-preemption sweep, Miri",
   text="Random hostile histories (faults, cancellation at every suspension point, take/retain) of the real pool under a director that controls every await point; an occupancy monitor built from constructor/destructor/manager-call ground truth asserts the limit at every create call, admission and hand-out. Held on the executions observed, not a proof.",
   note="Trusts tokio's semaphore below hook granularity except where Miri/TSan runs reach it; resize/close are excluded by the property's own precondition."),
 "C02": dict(level="exploration", sec="4 C02", tech="runtime monitoring: quiescence oracle + public-API capacity probe over random fault histories (managed pool; the get() family of the unmanaged pool as well), thread-level sweep (incl. a waiter that must be served while take() sits in Manager::detach), chaos and full-speed race rounds; hang watchdog (a repeated hang is a violation)",
   text="At every scheduler quiescent point each blocked getter must be justified by exhausted ground-truth capacity; every history ends with a capacity probe through the public API; non-injected panics are violations.",
   note="Unbounded liveness restated as bounded progress at quiescence."),
 "C03": dict(level="fault_enumeration", sec="4 C03", tech="runtime monitoring: abandonment matrix (suspension point x abandonment kind x pool state) with differential status/ground-truth oracle; random histories incl. calls given up before their first poll; full-speed race rounds with abandoned blocking gets",
   text="Every suspension point of get() x {drop, enclosing timeout, injected panic} x pool state class is driven after random prefixes; status() and ground truth are compared before/after, the object in hand must be detached and destructed exactly once.",
   note="Await points inside a user's own manager future belong to the manager."),
 "C04": dict(level="fault_enumeration", sec="4 C04", tech="runtime monitoring: per-object protocol automaton over the manager/hook call log; exhaustive outcome-vector enumeration for one get",
   text="A protocol automaton per object checks order and completeness of the verification chain at every callback and hand-out; every error returned is matched against the unique number of the failing call; the outcome tree of one get over small pools is enumerated completely.",
   note="Errors carry unique numbers; hooks are the harness's own."),
 "C05": dict(level="exploration", sec="4 C05", tech="runtime monitoring: identity-tagged objects with a location map (task level), thread-level one-preemption sweep and chaos with conservation/capacity probe at rest, full-speed race rounds incl. race-proof regimes (never empty / never full / contended timed gets); pools of up to 70 000 slots; hang watchdog",
   text="Every object carries an id and a logged destructor; a location map (in pool / held / handed back) is updated only from observed call results, so loss, duplication, a wrong try_add/add verdict, stranded callers and wrong status() figures at rest are visible. Real threads are parked at every schedule point of the unmanaged pool while one racing operation runs.",
   note="Exactness clauses (try_add reports Timeout exactly while full) are only judged where the order of events is total (task level)."),
 "C06": dict(level="exploration", sec="4 C06", tech="runtime monitoring: close() inserted at random points of task-level histories + thread-level close sweep; destructor/detach log and call results; full-speed race rounds with close(); feedback-aligned race of the last Pool handle being dropped against objects in use; hang watchdog",
   text="close() at a random point of random histories with getters in every phase; afterwards admission, blocked getters, idle objects, returns, resize, status and objects outliving the pool are checked from call results and the destructor log.",
   note="A getter already admitted at close may finish with an object; it is checked to be discarded on return."),
 "C07": dict(level="exploration", sec="4 C07", tech="runtime monitoring: admission monitor against the resize log in totally ordered task-level histories; capacity probe",
   text="In task-level histories the order of resize calls, admissions and returns is total, so every admission is checked against the limit in force; surplus handling, growth with waiters and the final capacity are checked by probe.",
   note="Thread-level runs only check order-insensitive end states."),
 "C08": dict(level="exploration", sec="4 C08", tech="runtime monitoring: reference deque from the return log compared with the object every get() tries first (also through handles from Object::pool()); callback attribution marker; lock-contention race rounds with conservation oracles; race-proof steady-state regime (N objects, <= N callers, resizes >= N, retain(keep all)): fixed LIFO / FIFO hand-out order, no creation, exact retain report; pools of up to 70 000 slots",
   text="A reference queue maintained from observed returns/retains/releases predicts the object each get must try first; create is only legal with an empty reference queue; every callback must be attributable to a pool call in progress.",
   note="Order is only observable at task level."),
 "C09": dict(level="exploration", sec="4 C09", tech="runtime monitoring: self-recording predicates, detach/destructor ledger per object id; thread-level sweep incl. detach inside retain() as a gate; race rounds with takes",
   text="Stateful predicates record their own answers and RetainResult is compared with them; a per-object ledger demands exactly one detach for every object the pool lets go of and none for objects that stay.",
   note="A panicking predicate or detach is outside the quantifier."),
 "C10": dict(level="fault_enumeration", sec="4 C10", tech="runtime monitoring: complete table of directed timeout scenarios on tokio's paused clock compared with a reference outcome table, random timing histories, and real-clock timeout scenarios for both runtimes (Tokio1, AsyncStd1)",
   text="The finite table runtime x (wait, create, recycle) in {none, zero, finite}^3 x ordering of 'deadline passes' against 'slot freed' / 'step finishes' is executed completely against the real pool on the virtual clock (2700 managed scenarios, 54 build() cases, 60 unmanaged scenarios); each result is compared with the documented outcome, accepting both where the documentation leaves the case open.",
   note="Runtime::AsyncStd1 has no virtual clock: it is driven by the real-clock scenarios only (rt_real: 'not before the deadline', result kind, pool state afterwards; 'too late' is inconclusive)."),
 "C11": dict(level="exploration", sec="4 C11", tech="runtime monitoring: status() sampled after every director action against ground truth (exact at quiescence, range checks otherwise), managed and unmanaged pool; race-proof sampler during full-speed rounds; figures of a closed pool at rest after feedback-aligned close() races",
   text="status() is sampled after every action: exact equality with ground truth at quiescent points, plausibility bounds in between.",
   note="Thread-level sampling uses monotone bounds only."),
 "C12": dict(level="exploration", sec="4 C12", tech="runtime monitoring: panic capture + thread-level one-preemption sweep of close() against every unmanaged operation at every schedule point; task-level histories continuing after close; full-speed race rounds (waiting figure of the closed pool at rest); hang watchdog (a repeated hang is a violation)",
   text="Thread A is parked at each schedule point of each unmanaged operation while close() (and every other operation) runs to completion on another thread, and vice versa; panics, results after close, objects kept by the closed pool and status at rest are checked; task-level histories continue after close().",
   note="Whether an add racing close returns Ok or hands the object back is left open by the property; only 'the closed pool keeps nothing' is demanded."),
 "C13": dict(level="exploration", sec="4 C13", tech="runtime monitoring: per-object hand-out counter compared with Metrics at every callback, hand-out and retain",
   text="Long single-pool histories; the harness's own per-object hand-out counter and last reported instants are compared with the Metrics seen by hooks, recycle, retain and Object::metrics().",
   note="Instants are real (std) instants; only ordering is checked."),
 "C14": dict(level="exploration", sec="4 C14", engine="sync", tech="runtime monitoring: thread-identity and sequence stamps recorded by closures and by the wrapped value's destructor on a multi-thread tokio runtime, the wrapper's own runtime being Tokio1 or AsyncStd1; 'is blocking allowed here' probed with Handle::block_on; second pass against the crates built with the tracing feature; drop-race trials under feedback control; zero-sized value engine; all-enabling tracing subscriber in the feature variant; Debug of the wrapper while a closure owns the value",
   text="Random histories of interact calls (completing, panicking, cancelled before the closure starts, cancelled while it is parked on a gate) followed by dropping the wrapper at a random moment on an async worker thread; constructor, closures and destructor record thread id, a global sequence number and whether tokio allows blocking on that thread; the destructor must run exactly once, off every thread that polls async tasks, after the end stamp of every closure that used the value.",
   note="Runtime shutdown and dropping a wrapper outside a runtime are outside the property's quantifier."),
 "C15": dict(level="exploration", sec="4 C15", engine="sync", tech="runtime monitoring: per-connection identity marker (PRAGMA user_version / serial number) read at every hand-out and compared with the set of poisoned / broken connections; capacity probe; pools on Tokio1 and AsyncStd1; second pass against the crates built with the tracing feature",
   text="Random histories of gets, interactions (ok / panic / cancelled), 'broken' markings (open transaction, has_broken, is_valid, scripted check function, failing custom query) and returns over real sqlite, r2d2 (scripted ManageConnection) and diesel-sqlite pools; every connection carries an identity marker that is read at every hand-out; at the end the full capacity must be served with healthy connections.",
   note="sqlite is the system libsqlite3 with :memory: databases; mysql/postgres diesel backends are not driven."),
 "C16": dict(level="exploration", sec="4 C16", engine="pg", tech="runtime monitoring: scripted PostgreSQL wire server (in-memory duplex per connection) logging every frontend message; client identity probe at every hand-out; cache/registry model; clear() from a second OS thread against prepares and against take(); pools built from a Config over a unix socket; post_create hook that rejects clients while the harness keeps their cache handle",
   text="The real tokio-postgres client talks to a scripted v3-protocol server through Manager::from_connect. The server's per-connection message log decides which check was issued between two hand-outs, on which connection a statement was parsed (and with which parameter types) and whether a cache hit caused traffic; the harness kills connections and fails checks at scripted points and tracks which clients the pool owns for the registry clauses.",
   note="No TLS, no real server; type resolution beyond built-in OIDs is not driven."),
 "C18": dict(level="exploration", sec="4 C18", engine="pg", tech="runtime monitoring: generated Config values checked against an independent reference translation through tokio_postgres::Config getters; built pools observed against a scripted server on a loopback port",
   text="Every field of Config is set/unset independently with hostile textual values, URLs in both syntaxes (valid and invalid), every enum variant, USER set and unset; get_pg_config() is compared option by option with a reference translation, panics are violations. create_pool() results are observed on the built pool: max_size, timeouts, queue mode (order of reuse) and recycling method (check query seen by the server), and the missing-runtime build error.",
   note="The URL grammar itself is tokio-postgres's; the reference uses the same parser for the URL part only."),
 "C17": dict(level="exploration", sec="4 C17", engine="redis", tech="runtime monitoring: scripted RESP server (unix domain socket) with per-connection command log and WATCH flag; scripted answers to the recycle PING (stale / look-alike / well-known / malformed replies, every error code); identity probe at hand-out; full-speed recycles on a multi-thread runtime with pairwise-distinct PING values; pool settings through builder setters or the Config's pool section; gets polled under catch_unwind",
   text="The real redis-rs multiplexed client talks to a scripted RESP server. At every hand-out of a reused connection the server's log for that connection must show exactly UNWATCH then PING <v> since the return, v must be new for the pool, the echo must have been correct and no WATCH state may be left; a connection whose PING got a stale / wrong value, an error, a disconnect or silence must never be handed out again; Connection::take is checked through status() and the server log.",
   note="Loopback TCP only; cluster and sentinel pools are not covered by this property."),
 "C19": dict(level="exploration", sec="4 C19", engine="redis", tech="runtime monitoring: generated configs against rule oracle and redis crate parser; field-wise conversion checks; serde_json and config::Environment round trips; scripted RESP listeners observe which servers are contacted (default local server for the standalone, cluster and sentinel flavours) and with which AUTH/HELLO/SELECT",
   text="Generated Config values of the three flavours (both/neither/one of url and connection, malformed URLs) are checked for the documented error or success without panics; generated connection descriptions are converted to the redis crate's types and back field by field; generated PoolConfig values with durations over the full range are round-tripped through a typed and a string-typed source; which servers a built pool really contacts, and the credentials / protocol / database it uses there, is observed on scripted listeners (standalone, cluster with CLUSTER SLOTS, sentinel with SENTINEL MASTERS).",
   note="The 'default local server' case needs port 6379 to be free; otherwise that cell is reported inconclusive. TLS addresses are not connected to."),
}
PENDING = {

}
# allow the table to be overridden by a sibling file as the build progresses
ov = os.path.join(ROOT, "tools", "manifest_table.py")
if os.path.exists(ov):
    exec(open(ov).read())

man = {
 "version": 1,
 "setup_cmd": "./vcheck setup",
 "hooks": {
   "guard": "deadpool_verif",
   "enable": "RUSTFLAGS=\"--cfg deadpool_verif\" (set for every harness build by harness/.cargo/config.toml)",
   "baseline_off_cmd": "./vcheck baseline",
   "source_commits": hook_commits(),
   "add_only": True,
 },
 "engines": [
   {"name": "tl", "path": "harness/core/src/tl", "serves_properties": sorted(CHECKS), "kind_free_text": TL},
 ],
 "checks": [],
 "not_applicable": [{"property_id": k, "reason": v} for k, v in sorted(PENDING.items())],
 "notes": "See DESIGN.md. Every check rebuilds the harness (cargo build --release, path dependencies on /repo) before it runs.",
}
for pid in sorted(CHECKS):
    c = CHECKS[pid]
    man["checks"].append({
      "property_id": pid,
      "quick_cmd": "./vcheck run %s quick" % pid,
      "thorough_cmd": "./vcheck run %s thorough" % pid,
      "evidence_file": "evidence/%s.json" % pid,
      "replay_cmd_template": "./vcheck replay {path}",
      "engine": c.get("engine", "tl"),
      "level_claimed": {"category": c["level"], "text": c["text"], "design_ref": "DESIGN.md section " + c["sec"]},
      "level_note": c["note"],
      "technique": c["tech"],
    })
json.dump(man, open(os.path.join(ROOT, "MANIFEST.json"), "w"), indent=1)
print("wrote MANIFEST.json with %d checks, %d not_applicable" % (len(man["checks"]), len(man["not_applicable"])))
