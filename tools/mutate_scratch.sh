#!/bin/bash
# usage: tools/mutate_scratch.sh <patch> <prop> [<prop>...]
# Like mutate.sh, but never touches /repo: /repo and /verif are copied to a scratch directory outside both,
# the patch is applied to the copy and the checks are run from the copy (path dependencies rewritten).
# The scratch directory (with its build output) is removed by `tools/mutate_scratch.sh --clean`.
set -u
S=${SCRATCH:-/root/verif-scratch-m}
if [ "${1:-}" = "--clean" ]; then rm -rf $S; exit 0; fi
patch=$(realpath "$1"); shift
mkdir -p $S
# cargo decides by mtime: a file that rsync puts back (old mtime) or tar extracts (commit time) would
  # look "not newer than the build" and a stale artifact would be reused: touch whatever changed
  rsync -ai --delete --exclude target --exclude .git /repo/ $S/repo/ | awk '/^>f/ {print $2}' | while read -r f; do touch "$S/repo/$f"; done
rsync -a --delete --exclude 'target*' --exclude .git --exclude replays --exclude evidence --exclude seeded ${VERIF_SRC:-/verif}/ $S/verif/
sed -i "s#\"/repo#\"$S/repo#g" $S/verif/harness/*/Cargo.toml
if ! (cd $S/repo && patch -p1 --dry-run -s < "$patch" >/dev/null 2>&1); then echo "MUTANT $(basename $(dirname $patch))/$(basename $patch): does not apply"; exit 2; fi
(cd $S/repo && patch -p1 -s < "$patch")
cd $S/verif
export CARGO_TARGET_DIR=$S/target
for p in "$@"; do
  out=$(VERIF_ONLY=${ONLY:-} timeout 1800 ./vcheck run $p ${TIER:-quick} 2>&1); rc=$?
  nv=$(echo "$out" | grep -c '^VIOLATION ')
  first=$(echo "$out" | grep -A1 '^VIOLATION ' | sed -n 2p | cut -c1-220)
  # margin: how many cases of the run hit a violation (not only the handful that is reported)
  margin=$(python3 - "$S/verif/evidence/$p.json" <<'PY' 2>/dev/null
import json,sys
try:
    j=json.load(open(sys.argv[1])); print(sum(e.get('counters',{}).get('violating_cases',0) for e in j['coverage']['engines'].values()))
except Exception: print('?')
PY
)
  if [ $rc -eq 1 ]; then echo "MUTANT $(basename $(dirname $patch)) $p: KILLED ($nv violations, $margin violating cases) e.g.$first";
  elif [ $rc -eq 0 ]; then echo "MUTANT $(basename $(dirname $patch)) $p: survived";
  else echo "MUTANT $(basename $(dirname $patch)) $p: BROKEN rc=$rc $(echo "$out" | tail -3 | tr '\n' ' ' | cut -c1-300)"; fi
done
